#!/bin/bash
# Offline setup: nothing to build. Verifies the interpreter, the tree under test and the tools the checks use.
cd "$(dirname "$0")" || exit 1
PY="${VERIF_PYTHON:-/venv/bin/python}"
"$PY" - <<'PYEOF' || exit 1
import sys
sys.path.insert(0, "/repo")
import numpy, scipy, pandas, h5py, joblib, jsonschema  # noqa
import black_it
print("python", sys.version.split()[0], "black_it from", black_it.__file__)
PYEOF
command -v strace >/dev/null && echo "strace: present" || echo "strace: absent (C06 falls back to python failpoints)"
mkdir -p evidence out
echo "setup ok"
