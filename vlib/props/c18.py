"""C18 - sampler labels in a history can always be mapped back to sampler names."""
from __future__ import annotations

import numpy as np

from vlib import calgen as CG
from vlib import calmon as CM
from vlib import gen as G
from vlib.core import jhash, quiet, repo_path, rng_for

ID = "C18"
LEVEL = "exploration"
RULE = (
    "case = generated calibrator with a saving folder driven through a generated sequence of {calibrate(n), "
    "set_samplers(new line-up), set_scheduler(new round-robin scheduler), a batch that fails in the model} where the new line-ups add classes, drop classes that "
    "already produced rows, repeat classes and include user-defined sampler classes. Monitors: samplers_id_table after every "
    "operation (only grows, entries never change, ids unique); for every row the inverse table maps method_samp to the class "
    "that produced it (class-level wrapper on sample()); after every calibrate() - i.e. for the checkpoint the calibrator "
    "itself wrote - plot_results._get_samplers_names(folder, ids) returns that same class name for every id in the history "
    "and the restored calibrator's table equals the live one; the repository's old-format example checkpoint (pickled list) "
    "still resolves; a third of the checkpoints are also read from a copy in another folder with the original removed; every eighth "
    "case runs under the RL scheduler (no folder: labels and table only, incl. the bootstrap sampler it appends). Non-trivial = a class present in the history is no longer in the scheduler at checkpoint time; "
    "distinct by operation sequence."
    ' Line-ups include user classes derived from a built-in (next to the parent), a class with a `name` attribute naming another class, a non-ASCII class name; operations include replacements before the first batch, retiring the highest id then adding a new class, extending a user scheduler in place and announcing it again; folders with a stale temporary params file; sampler objects shared with a second calibrator of the reverse order; str and Path folder arguments.'
    ' Every third folder case (two parameters; the line-up often reversed before the first batch) is drawn with the real plot_sampling / plot_convergence / plot_sampling_batch_nums under the Agg backend and every legend is read back: the text next to a handle must be the class name of the id seaborn itself labelled that handle with.'
)
ASSUMPTIONS = ["sampler classes are identified by their class name, as the library does"]
REQUIRED_COUNTERS = {"lineups_reversed_before_the_first_batch": 2, "runs_drawn_whose_ids_first_appear_out_of_order": 2, "runs_drawn_with_the_plotting_utilities": 5, "plot_legend_entries_judged": 20, "user_subclasses_of_a_built_in": 4, "user_classes_with_a_name_attribute": 2, "folder_holds_a_stale_temporary_params_file": 8, "sampler_objects_shared_with_a_calibrator_of_another_order": 2, "replacements_before_the_first_batch": 6, "highest_id_retired_then_new_class_added": 4, "scheduler_extended_in_place_and_announced_again": 4, "folder_holds_no_batch_checkpoint_of_another_lineup": 5, "failed_batches_then_continued": 10, "rl_scheduler_cases": 5, "moved_checkpoints": 10, "folder_reused_by_other_run": 20, "tables_checked": 80, "rows_attributed": 150, "helper_calls": 40, "restores": 40, "dropped_class_checkpoints": 6,
                     "user_defined_classes": 5, "set_scheduler_ops": 5, "old_format_fixture": 1}
SHARDS = {"quick": 16, "thorough": 16}
SHARD_WATCHDOG = {"quick": 1500, "thorough": 10800}


def gen_cases(tier, seed):
    n = 96 if tier == "quick" else 20000
    return [{"i": i, "seed": seed} for i in range(n)] + [{"i": -1, "seed": seed, "fixture": True}]


def check_plot_legends(PR, folder, table, batch_nums, cnt):
    """Draw the saved run with the plotting utilities (Agg) and read the legends back: the text next to a legend handle must be
    the class name of the id that handle stands for.  Which id a handle stands for is read from seaborn's own label of the
    handle (the id as a string), not from anything the library computes."""
    import matplotlib

    matplotlib.use("Agg")
    import matplotlib.pyplot as plt

    inv = {int(v): k for k, v in table.items()}
    bad = []
    calls = [("plot_sampling", lambda: PR.plot_sampling(folder)), ("plot_convergence", lambda: PR.plot_convergence(folder)),
             (f"plot_sampling_batch_nums({batch_nums})", lambda: PR.plot_sampling_batch_nums(folder, batch_nums))]
    for name, fn in calls:
        plt.close("all")
        try:
            import warnings

            with warnings.catch_warnings():
                warnings.simplefilter("ignore")
                fn()
            fig = plt.gcf()
            legends = [ax.get_legend() for ax in fig.axes if ax.get_legend() is not None] + list(fig.legends)
            own = {}     # handle artist -> seaborn's own label
            for ax in fig.axes:
                hs, ls = ax.get_legend_handles_labels()
                for h_, l_ in zip(hs, ls):
                    own[id(h_)] = l_
            judged = 0
            for lg in legends:
                hs = getattr(lg, "legend_handles", None) or getattr(lg, "legendHandles", [])
                texts = [t.get_text() for t in lg.get_texts()]
                # the legend was built from the axes' handles in order: pair by position with the handles the axes report
                src_h, src_l = [], []
                for ax in fig.axes:
                    a_, b_ = ax.get_legend_handles_labels()
                    if len(a_) >= len(src_h):
                        src_h, src_l = a_, b_
                for k_, txt in enumerate(texts):
                    if k_ >= len(src_l):
                        break
                    lab = src_l[k_]
                    try:
                        want = inv[int(float(lab))]
                    except (ValueError, KeyError):
                        continue      # the "min loss" line etc.
                    judged += 1
                    if txt != want:
                        bad.append(f"{name}: the legend entry drawn for sampler id {lab} reads '{txt}', that id belongs to {want} (table {table})")
                        break
            if judged:
                cnt("plot_legend_entries_judged", judged)
        except Exception as e:  # noqa: BLE001
            bad.append(f"{name} raised {type(e).__name__}: {str(e)[:140]}")
        finally:
            plt.close("all")
    return bad


def run_case(desc, ctx):
    from black_it.calibrator import Calibrator
    from black_it.plot import plot_results as PR
    from black_it.schedulers.round_robin import RoundRobinScheduler

    from vlib import usersamplers as U

    out = {"violations": [], "counters": {}, "evals": 0, "nontrivial": []}
    c = out["counters"]

    def cnt(k, n=1):
        c[k] = c.get(k, 0) + n

    if desc.get("fixture"):
        folder = repo_path() / "examples" / "saving_folder"
        if not folder.exists():
            out["skipped"] = 1
            return out
        exp = ["RandomUniformSampler", "RSequenceSampler", "HaltonSampler", "RandomForestSampler", "BestBatchSampler"]
        try:
            with quiet():
                got = PR._get_samplers_names(folder, list(range(5)))
            cnt("old_format_fixture")
            out["evals"] = 1
            if list(got) != exp:
                out["violations"].append({"msg": f"old-format checkpoint (pickled sampler list): ids 0..4 resolve to {got}, expected {exp}", "witness": {}})
        except Exception as e:  # noqa: BLE001
            out["violations"].append({"msg": f"old-format checkpoint (pickled sampler list) cannot be resolved: {type(e).__name__}: {e}", "witness": {}})
        return out

    rng = rng_for(desc["seed"], 18, desc["i"])
    rl = desc["i"] % 8 == 5    # RL scheduler (it appends its own bootstrap Halton sampler when none is supplied); cannot be checkpointed, so no folder
    cfg = CG.gen_config(rng, kinds=G.CHEAP, n_samplers=int(rng.integers(1, 4)), max_bs=2, loss_kinds=["minkowski"], max_params=2, params=(2 if desc["i"] % 3 == 1 else None), scheduler="rl" if rl else None)
    if rl:
        seen_h = False
        for d_ in cfg["lineup"]:
            if d_["kind"] == "Halton":
                if seen_h:
                    d_["kind"] = "RSequence"
                seen_h = True
            if d_["kind"] == "BestBatch":
                d_["kind"] = "RandomUniform"
        cnt("rl_scheduler_cases")
    folder = ctx.scratch() / "ck"
    model = CG.model_for(cfg)
    ops = []
    wit = {"initial_lineup": [d["kind"] for d in cfg["lineup"]], "scheduler": cfg["scheduler"], "ops": ops}
    if not rl and desc["i"] % 4 == 1:
        # the folder already holds a checkpoint written BEFORE ANY BATCH by a calibrator with another line-up (its stored history is
        # empty, hence a prefix of anything), or one batch of a run that shares this run's seed and first sampler: whatever the
        # calibrator writes there afterwards must describe this run's classes, not the earlier table
        try:
            order = [k_ for k_ in G.HISTORY_FREE]
            other_cfg = dict(cfg, lineup=[G.gen_sampler_desc(rng, k_, batch_size=1) for k_ in [order[j] for j in rng.permutation(len(order))][: int(rng.integers(2, 4))]], scheduler="list")
            with quiet():
                pre_cal = CG.build_calibrator(other_cfg, folder=str(folder))
                pre_cal.create_checkpoint(str(folder))
            cnt("folder_holds_no_batch_checkpoint_of_another_lineup")
            wit["folder_held_no_batch_checkpoint_of_lineup"] = [d_["kind"] for d_ in other_cfg["lineup"]]
        except Exception:  # noqa: BLE001
            pass
    if not rl and desc["i"] % 6 == 2:
        # a previous process was killed during a save: its temporary params file is still lying in the folder
        folder.mkdir(parents=True, exist_ok=True)
        (folder / "calibration_params.json.tmp").write_text('{"samplers_id_table": {"HaltonSampler": 0')
        cnt("folder_holds_a_stale_temporary_params_file")
        wit["folder_held_a_stale_temporary_params_file"] = True
    keep = {}
    with quiet():
        cal = CG.build_calibrator(cfg, folder=None if rl else str(folder), keep=keep)
    if not rl and desc["i"] % 5 == 3 and len({type(s_).__name__ for s_ in keep["samplers"]}) >= 2:
        # the same sampler OBJECTS are then used to build a second calibrator that lists the classes in another order
        # (its table numbers them differently): this calibrator's labels still follow ITS table
        try:
            with quiet():
                other = Calibrator(loss_function=CG.LG.build_loss(cfg["loss"]), real_data=CG.real_data(cfg), model=model,
                                   parameters_bounds=np.array(cfg["space"]["bounds"], dtype=float), parameters_precision=np.array(cfg["space"]["precision"], dtype=float),
                                   ensemble_size=1, samplers=list(reversed(keep["samplers"])), verbose=False, saving_folder=None, random_state=3, n_jobs=1)
            if list(other.samplers_id_table) != list(cal.samplers_id_table):
                cnt("sampler_objects_shared_with_a_calibrator_of_another_order")
                wit["sampler_objects_shared_with_a_calibrator_of_another_order"] = True
        except Exception:  # noqa: BLE001
            pass

    def new_lineup(have_rows):
        n = int(rng.integers(1, 4))
        objs, names = [], []
        for k in range(n):
            u = rng.random()
            if u < 0.3:
                # user classes: derived from BaseSampler, derived from a built-in (next to the parent / a sibling), carrying a `name`
                # attribute that equals another class' name, with a non-ASCII class name
                cls = [U.CornerSampler, U.CornerSampler, U.MidSampler, U.WideHalton, U.WideHalton, U.OtherHalton, U.NamedSampler, U.NamedSampler, U.ÉchantillonneurLocal][int(rng.integers(0, 9))]
                kw = {"name": str(rng.choice(["HaltonSampler", "local search", "RandomUniformSampler"]))} if cls is U.NamedSampler else {}
                objs.append(cls(batch_size=int(rng.integers(1, 3)), random_state=int(rng.integers(2**31)), **kw))
                cnt("user_defined_classes")
                if cls in (U.WideHalton, U.OtherHalton):
                    cnt("user_subclasses_of_a_built_in")
                    if rng.random() < 0.6:
                        objs.append(G.build_sampler(G.gen_sampler_desc(rng, "Halton", batch_size=1)))     # ... right next to its parent
                        names.append(type(objs[-2]).__name__)
                        names.append("HaltonSampler")
                        continue
                if cls is U.NamedSampler:
                    cnt("user_classes_with_a_name_attribute")
            else:
                kinds = G.HISTORY_FREE + (["BestBatch"] if have_rows >= 2 else [])
                d = G.gen_sampler_desc(rng, str(rng.choice(kinds)), batch_size=int(rng.integers(1, 3)))
                objs.append(G.build_sampler(d))
            names.append(type(objs[-1]).__name__)
        return objs, names

    produced = {}      # row index -> class name that produced it
    table_hist = [dict(cal.samplers_id_table)]

    def check_table(label):
        t = dict(cal.samplers_id_table)
        cnt("tables_checked")
        prev = table_hist[-1]
        for k, v in prev.items():
            if t.get(k) != v:
                out["violations"].append({"msg": f"{label}: id of {k} changed from {v} to {t.get(k)} (table {prev} -> {t})", "witness": wit})
                return
        if len(set(t.values())) != len(t):
            out["violations"].append({"msg": f"{label}: two classes share an id: {t}", "witness": wit})
        table_hist.append(t)

    nops = int(rng.integers(3, 7))
    for k in range(nops):
        op = "calibrate" if (k == 0 or rl) else str(rng.choice(["calibrate", "calibrate", "set_samplers", "set_scheduler", "failed_batch", "retire_highest_then_add", "extend_in_place"]))
        if k == 0 and not rl and rng.random() < 0.25:
            op = str(rng.choice(["set_samplers", "set_scheduler"]))      # the line-up is replaced BEFORE the first batch
            cnt("replacements_before_the_first_batch")
        if rl and k > 0 and rng.random() < 0.2:
            op = "failed_batch"
        if k == 0 and not rl and desc["i"] % 3 == 1 and len({type(s_).__name__ for s_ in cal.scheduler.samplers}) >= 2 and all(type(s_).__name__ != "BestBatchSampler" for s_ in cal.scheduler.samplers) and rng.random() < 0.7:   # (BestBatch needs its place in the order)
            # the line-up is reversed before the first batch: the first rows of the history then carry the HIGHEST id
            rev = list(reversed(cal.scheduler.samplers))
            ops.append(["set_samplers", [type(s_).__name__ for s_ in rev]])
            with quiet():
                cal.set_samplers(rev)
            check_table("after the line-up was reversed before the first batch")
            cnt("lineups_reversed_before_the_first_batch")
            op = "calibrate"
        if op == "failed_batch":
            # a batch fails after its sampler was designated (the model raises) and the user simply goes on: labels and samples stay in step
            from vlib import models as MM

            ops.append(["a batch fails in the model, then the run goes on"])
            good = cal.model
            cal.model = MM.FailAtCall(cfg["D"], 0)
            try:
                with quiet():
                    cal.calibrate(1)
            except MM.InjectedFault:
                cnt("failed_batches_then_continued")
            except Exception as e:  # noqa: BLE001
                out["violations"].append({"msg": f"a failing batch raised {type(e).__name__} instead of the model's exception: {str(e)[:120]}", "witness": wit})
            finally:
                cal.model = good
            if len(cal.method_samp) != len(cal.params_samp):
                out["violations"].append({"msg": f"after a failed batch there are {len(cal.method_samp)} sampler labels for {len(cal.params_samp)} samples", "witness": wit})
            continue
        if op == "calibrate":
            n = int(rng.integers(1, 4))
            ops.append(["calibrate", n])
            row0 = int(cal.n_sampled_params)
            with CM.RunMonitor(cal, snapshots=False) as mon:
                try:
                    with quiet():
                        cal.calibrate(n)
                except Exception as e:  # noqa: BLE001
                    out["violations"].append({"msg": f"calibrate raised {type(e).__name__}: {str(e)[:160]}", "witness": wit})
                    return out
            r = row0
            for (bidx, smp, pos, cname, ret) in mon.batches():
                for _ in range(0 if ret is None else len(ret)):
                    produced[r] = cname
                    r += 1
            check_table(f"after calibrate({n})")
            inv = {v: kk for kk, v in cal.samplers_id_table.items()}
            for i_row, cname in produced.items():
                cnt("rows_attributed")
                lab = int(cal.method_samp[i_row])
                if inv.get(lab) != cname:
                    out["violations"].append({"msg": f"row {i_row} was produced by {cname} but its label {lab} maps to {inv.get(lab)} (table {cal.samplers_id_table})", "witness": wit})
                    break
            if rl:
                continue
            # the checkpoint the calibrator just wrote
            in_sched = {type(s).__name__ for s in cal.scheduler.samplers}
            dropped = set(produced.values()) - in_sched
            if dropped:
                cnt("dropped_class_checkpoints")
                out["nontrivial"].append(jhash([wit["initial_lineup"], ops]))
            ids = [int(x) for x in cal.method_samp]
            try:
                with quiet():
                    names = PR._get_samplers_names(folder, ids)
                cnt("helper_calls")
                want = [produced[i] for i in range(len(ids))]
                if list(names) != want:
                    j = next(i for i in range(len(ids)) if names[i] != want[i])
                    out["violations"].append({"msg": f"plot helper labels row {j} (id {ids[j]}) as {names[j]}, it was produced by {want[j]}" + (f" [classes no longer scheduled: {sorted(dropped)}]" if dropped else ""), "witness": wit})
            except Exception as e:  # noqa: BLE001
                out["violations"].append({"msg": f"plot helper cannot label the checkpoint the calibrator wrote: {type(e).__name__}: {str(e)[:140]}", "witness": wit})
            if desc["i"] % 3 == 1 and cfg["P"] >= 2 and len(set(ids)) >= 2 and not wit.get("legends_checked"):     # (pair plots need two parameters)
                # the plotting utilities themselves: every legend entry names the class its colour stands for
                wit["legends_checked"] = True
                some = sorted({int(b_) for b_ in cal.batch_num_samp})
                pick = [some[j_] for j_ in sorted(rng.choice(len(some), size=int(rng.integers(1, len(some) + 1)), replace=False))]
                for msg in check_plot_legends(PR, folder, dict(cal.samplers_id_table), pick, cnt)[:2]:
                    out["violations"].append({"msg": msg, "witness": wit})
                cnt("runs_drawn_with_the_plotting_utilities")
                if ids != sorted(ids) or [i_ for k_, i_ in enumerate(ids) if i_ not in ids[:k_]] != sorted(set(ids)):
                    cnt("runs_drawn_whose_ids_first_appear_out_of_order")
            if rng.random() < 0.3:
                # the checkpoint is archived somewhere else and the original folder is gone: the copy alone still explains its labels
                import shutil

                moved = ctx.scratch() / "archived_copy"
                shutil.copytree(folder, moved)
                hidden = folder.with_name("ck_hidden")
                folder.rename(hidden)
                try:
                    with quiet():
                        names_m = PR._get_samplers_names(moved, ids)
                        rest_m = Calibrator.restore_from_checkpoint(str(moved), model)
                    cnt("moved_checkpoints")
                    if list(names_m) != [produced[i] for i in range(len(ids))]:
                        out["violations"].append({"msg": "plot helper mislabels a checkpoint that was copied to another folder (original removed)", "witness": wit})
                    if dict(rest_m.samplers_id_table) != dict(cal.samplers_id_table):
                        out["violations"].append({"msg": f"checkpoint copied to another folder (original removed) restores the id table {dict(rest_m.samplers_id_table)}, live {dict(cal.samplers_id_table)}", "witness": wit})
                except Exception as e:  # noqa: BLE001
                    out["violations"].append({"msg": f"a checkpoint copied to another folder (original removed) cannot be read: {type(e).__name__}: {str(e)[:140]}", "witness": wit})
                finally:
                    hidden.rename(folder)
            try:
                with quiet():
                    rest = Calibrator.restore_from_checkpoint(str(folder) if rng.random() < 0.5 else folder, model)     # str or pathlib.Path
                cnt("restores")
                if dict(rest.samplers_id_table) != dict(cal.samplers_id_table):
                    out["violations"].append({"msg": f"restored id table {dict(rest.samplers_id_table)} != live {dict(cal.samplers_id_table)}" + (f" [classes no longer scheduled: {sorted(dropped)}]" if dropped else ""), "witness": wit})
                elif rng.random() < 0.4:
                    cal = rest  # continue from the restored object
                    ops.append(["continue_from_restore"])
            except Exception as e:  # noqa: BLE001
                out["violations"].append({"msg": f"restore raised {type(e).__name__}: {str(e)[:140]}", "witness": wit})
        elif op == "retire_highest_then_add":
            # two successive replacements: first the class with the HIGHEST id leaves the line-up, then a class never seen before joins
            t0 = dict(cal.samplers_id_table)
            cur = list(cal.scheduler.samplers)
            top = max(cur, key=lambda s_: t0[type(s_).__name__])
            rest_ = [s_ for s_ in cur if type(s_) is not type(top)]
            fresh_cls = [c_ for c_ in (U.CornerSampler, U.MidSampler, U.WideHalton, U.OtherHalton) if c_.__name__ not in t0]
            if rest_ and fresh_cls and t0[type(top).__name__] == max(t0.values()):
                ops.append(["set_samplers", [type(s_).__name__ for s_ in rest_]])
                ops.append(["set_samplers", [type(s_).__name__ for s_ in rest_] + [fresh_cls[0].__name__]])
                with quiet():
                    cal.set_samplers(rest_)
                    check_table("after the class with the highest id was retired")
                    cal.set_samplers(rest_ + [fresh_cls[0](batch_size=1, random_state=int(rng.integers(2**31)))])
                check_table(f"after {fresh_cls[0].__name__} joined (the class with the highest id, {type(top).__name__}, had just been retired)")
                cnt("highest_id_retired_then_new_class_added")
        elif op == "extend_in_place":
            # a user scheduler that can grow: the line-up is extended in place and the SAME scheduler object is announced again
            fresh_cls = [c_ for c_ in (U.CornerSampler, U.MidSampler, U.WideHalton, U.OtherHalton) if c_.__name__ not in cal.samplers_id_table]
            if fresh_cls and type(cal.scheduler).__name__ in ("RoundRobinScheduler", "GrowingRoundRobin"):
                cur = list(cal.scheduler.samplers)
                ops.append(["set_scheduler(growing)", [type(s_).__name__ for s_ in cur]])
                ops.append(["scheduler.add_sampler + set_scheduler(same object)", fresh_cls[0].__name__])
                with quiet():
                    gsch = U.GrowingRoundRobin(cur)
                    cal.set_scheduler(gsch)
                    gsch.add_sampler(fresh_cls[0](batch_size=1, random_state=int(rng.integers(2**31))))
                    cal.set_scheduler(gsch)
                check_table("after the scheduler object was extended in place and announced again")
                cnt("scheduler_extended_in_place_and_announced_again")
        elif op == "set_samplers":
            objs, names = new_lineup(int(cal.n_sampled_params))
            ops.append(["set_samplers", names])
            with quiet():
                cal.set_samplers(objs)
            check_table(f"after set_samplers({names})")
        else:
            objs, names = new_lineup(int(cal.n_sampled_params))
            ops.append(["set_scheduler", names])
            cnt("set_scheduler_ops")
            with quiet():
                cal.set_scheduler(RoundRobinScheduler(objs))
            check_table(f"after set_scheduler({names})")
        if len(out["violations"]) > 2:
            break
    # the same folder (same path, same process) is then used by an unrelated run whose classes get other ids: the helper and
    # restore must describe the checkpoint that is in the folder now
    if not out["violations"] and not rl:
        try:
            kinds2 = [k for k in G.HISTORY_FREE]
            order = [kinds2[j] for j in rng.permutation(len(kinds2))][: int(rng.integers(2, 4))]
            cfg2 = dict(cfg, lineup=[G.gen_sampler_desc(rng, k, batch_size=1) for k in order], scheduler="list", seed=cfg["seed"] + 1)
            with quiet():
                cal2 = CG.build_calibrator(cfg2, folder=str(folder))
                with CM.RunMonitor(cal2, snapshots=False) as mon2:
                    cal2.calibrate(len(order))
                names2 = PR._get_samplers_names(folder, [int(x) for x in cal2.method_samp])
            want2 = []
            for (bidx, smp, pos, cname, ret) in mon2.batches():
                want2 += [cname] * (0 if ret is None else len(ret))
            cnt("folder_reused_by_other_run")
            if list(names2) != want2:
                out["violations"].append({"msg": f"folder reused by another run (line-up {order}): the plot helper labels its rows {list(names2)[:6]}, they were produced by {want2[:6]}",
                                          "witness": dict(wit, second_run_lineup=order)})
            with quiet():
                rest2 = Calibrator.restore_from_checkpoint(str(folder), model)
            if dict(rest2.samplers_id_table) != dict(cal2.samplers_id_table):
                out["violations"].append({"msg": f"folder reused by another run: restored id table {dict(rest2.samplers_id_table)} != the run's {dict(cal2.samplers_id_table)}", "witness": wit})
        except Exception as e:  # noqa: BLE001
            out["violations"].append({"msg": f"second run in the same folder raised {type(e).__name__}: {str(e)[:140]}", "witness": wit})
    out["evals"] = 1
    if desc["i"] < 2:
        out["sample"] = {"initial_lineup": wit["initial_lineup"], "ops": ops, "final_table": dict(cal.samplers_id_table), "method_samp": cal.method_samp}
    return out
