"""C11 - a failing batch leaves the calibrator consistent and reusable (fault at every invocation index)."""
from __future__ import annotations

import json
import os
import subprocess
import sys
import threading

import numpy as np

from vlib import calgen as CG
from vlib import calmon as CM
from vlib import gen as G
from vlib import models as M
from vlib import state as S
from vlib.core import jhash, quiet, rng_for
from vlib.hooks import Wrap

ID = "C11"
LEVEL = "fault_enumeration"
RULE = (
    "case = (configuration: 1-3 parameters, 1-4 cheap samplers with batch sizes 1-2 incl. a deduplicating sampler on a tiny "
    "grid, ensemble 1-2, Minkowski loss, 1-4 batches quick / 1-6 thorough; scheduler round-robin or RL; saving folder or not; "
    "n_jobs 1 or 2; target model / loss / sampler). A fault-free twin is run first and counts the invocations of the target; "
    "then for EVERY invocation index k a fresh calibrator is run with an exception (an Exception subclass, or in a quarter of the n_jobs=1 cases a KeyboardInterrupt subclass) injected at the k-th invocation (model under "
    "n_jobs=2: keyed on the seed the twin used for invocation k); with n_jobs=1 the fault class rotates over Exception, ValueError and "
    "ZeroDivisionError subclasses, an exception with a two-argument constructor, an exception class defined inside a function (not picklable by reference) and a KeyboardInterrupt subclass, a third of the cases with verbose=True, and half of the loss "
    "faults are raised part-way through an evaluation. Oracle per fault: calibrate() raises the injected exception (in-process: the very "
    "object, once); with a saving folder the folder restores to exactly the completed batches (nothing for a fault in the first batch); "
    "counters and history equal the twin truncated to the batches completed before the fault and pass the C02 alignment "
    "oracle; no thread that was started by the calibration and has a black_it frame on its stack is alive; a following "
    "calibrate(1) returns, is scheduled as the scheduler prescribes and keeps the history aligned. A few scenarios also run in "
    "a child process that must exit by itself. Non-trivial = fault at least one completed batch in; distinct by "
    "(configuration, target, index). exhaustive=true refers to the invocation indices of the runs performed."
)
ASSUMPTIONS = [
    "joblib/loky service threads are reported, not judged (no black_it frame on their stack)",
    "RL scheduler with a saving folder cannot run at all (known finding rl-scheduler-not-checkpointable under C04): that combination is counted, not enumerated",
]
REQUIRED_COUNTERS = {"fault_class_value": 10, "fault_class_arith": 8, "fault_class_twoargs": 10, "fault_class_local": 10, "faults_with_verbose_on": 50, "loss_faults_part_way_through_an_evaluation": 15, "folder_restored_after_fault": 30, "faults_not_exception_subclass": 30, "faults_injected": 200, "faults_model": 80, "faults_loss": 40, "faults_sampler": 40, "faults_rl": 40, "faults_njobs2": 20,
                     "faults_with_folder": 60, "reuse_ok": 200, "child_process_exits": 1}
SHARDS = {"quick": 16, "thorough": 16}
SHARD_WATCHDOG = {"quick": 1500, "thorough": 10800}


FAULT_LIMIT = 40   # seconds for one faulty run of a handful of tiny batches (normally well under a second)


def gen_cases(tier, seed):
    n = 120 if tier == "quick" else 5000
    cases = [{"kind": "enum", "i": i, "seed": seed, "tier": tier} for i in range(n)]
    cases += [{"kind": "child", "i": i, "seed": seed, "tier": tier} for i in range(3 if tier == "quick" else 12)]
    return cases


def classify(v):
    return v.get("mechanism")


def make_cfg(rng, i):
    rl = i % 3 == 1
    kinds = ["RandomUniform", "Halton", "BestBatch", "ParticleSwarm", "RSequence"]
    cfg = CG.gen_config(rng, kinds=kinds, n_samplers=int(rng.integers(1, 5)), max_bs=2, loss_kinds=["minkowski"], max_params=3,
                        ensemble=int(rng.integers(1, 3)), scheduler="rl" if rl else str(rng.choice(["list", "rr"])), max_points=6)
    cfg["loss"] = {"kind": "minkowski", "p": 2, "weights": None, "filters": None}
    for d in cfg["lineup"]:
        if d["kind"] == "BestBatch":
            d["batch_size"] = 1
    if cfg["lineup"][0]["kind"] == "BestBatch":
        cfg["lineup"][0] = G.gen_sampler_desc(rng, "RandomUniform", batch_size=2)
    if rl:
        seen = False
        for d in cfg["lineup"]:
            if d["kind"] == "Halton":
                if seen:
                    d["kind"] = "RSequence"
                seen = True
    return cfg


def new_threads(before):
    """Threads alive now that were not alive before, split into (judged: black_it frame on stack, others)."""
    frames = sys._current_frames()
    judged, others = [], []
    for t in threading.enumerate():
        if t.ident in before or not t.is_alive() or t is threading.current_thread():
            continue
        f = frames.get(t.ident)
        hit = False
        while f is not None:
            if "black_it" in f.f_code.co_filename.replace("\\", "/").split("/"):
                hit = True
                break
            f = f.f_back
        (judged if hit else others).append(f"{t.name}{'' if t.daemon else ' (non-daemon)'}")
    return judged, others


def release(cal):
    try:
        s = cal.scheduler
        t = getattr(s, "_agent_thread", None)
        if t is not None and t.is_alive():
            s._stopped = True
            s._out_queue.put(None)
            t.join(timeout=5)
            while not s._in_queue.empty():
                s._in_queue.get_nowait()
    except Exception:  # noqa: BLE001
        pass


def wrap_all(cal, pre):
    """Wrap sample_batch of every concrete sampler class the scheduler holds (the base method is abstract)."""
    import contextlib

    st = contextlib.ExitStack()
    for cls in {type(s) for s in cal.scheduler.samplers}:
        st.enter_context(Wrap(cls, "sample_batch", pre=pre))
    return st


def build(cfg, folder, n_jobs, model=None, loss=None, verbose=False):
    with quiet():
        return CG.build_calibrator(cfg, folder=folder, n_jobs=n_jobs, model=model, loss=loss, verbose=verbose)


def run_enum(desc, ctx, out):
    from vlib import usersamplers as U
    from black_it.samplers.base import BaseSampler

    i = desc["i"]
    rng = rng_for(desc["seed"], 11, 0, i)
    c = out["counters"]

    def cnt(k, n=1):
        c[k] = c.get(k, 0) + n

    cfg = make_cfg(rng, i)
    rl = cfg["scheduler"] == "rl"
    use_folder = (i % 2 == 0) and not rl
    if rl and i % 2 == 0:
        cnt("rl_with_folder_not_enumerated")
    n_jobs = 2 if i % 5 == 4 else 1
    target = ["model", "loss", "sampler"][(i // 3 + i) % 3]
    nb = int(rng.integers(1, 5 if desc["tier"] == "quick" else 7))
    interrupt = n_jobs == 1 and i % 4 == 3   # the fault is a KeyboardInterrupt-like BaseException (Ctrl-C during a simulation)
    Fault = M.InjectedInterrupt if interrupt else M.InjectedFault
    # the class of the fault varies: plain Exception, ValueError / ZeroDivisionError subclasses (what "robust" code swallows), an
    # exception with a two-argument constructor (cannot be re-created from a message), KeyboardInterrupt subclass
    fkind = "interrupt" if interrupt else (["plain", "value", "arith", "twoargs", "local"][(i // 2) % 5] if n_jobs == 1 else "plain")
    verbose = i % 3 == 2      # logging on: whatever the verbose path starts (timers, progress output) is gone too after the failure
    inside = target == "loss" and i % 2 == 1      # the loss fails part-way through an evaluation (after its first coordinates)
    D, P = cfg["D"], cfg["P"]
    L = len(cfg["lineup"]) + (1 if rl and not any(d["kind"] == "Halton" for d in cfg["lineup"]) else 0)
    wit = {"config": cfg, "batches": nb, "target": target, "n_jobs": n_jobs, "folder": use_folder, "fault_class": fkind, "loss_fails_part_way": inside}

    # ---------------- fault-free twin: counts invocations per batch
    calls = {"sample_batch": [], "loss": []}
    folder = str(ctx.scratch() / "twin") if use_folder else None
    twin = build(cfg, folder, 1, loss=U.FailingMinkowski(None))

    def pre_sb(self, *a, **k):
        calls["sample_batch"].append(int(twin.current_batch_index))

    try:
        with wrap_all(twin, pre_sb), quiet(), G.time_limit(G.LIMIT):
            twin.calibrate(nb)
    except Exception as e:  # noqa: BLE001
        release(twin)
        out["inconclusive"] = f"fault-free twin failed: {type(e).__name__}: {str(e)[:120]}"
        return
    H = S.history_arrays(twin)
    rows_per_batch = [int(np.sum(H["batch_num_samp"] == b)) for b in range(nb)]
    rows_after = np.cumsum(rows_per_batch)
    E = cfg["E"]
    if target == "model":
        per_batch = [r * E for r in rows_per_batch]
    elif target == "loss":
        per_batch = rows_per_batch
    else:
        sb = np.array(calls["sample_batch"])
        per_batch = [int(np.sum(sb == b)) for b in range(nb)]
        # PSO and others may be called through sample() only: sample_batch count is what was observed
    total = int(sum(per_batch))
    batch_of = np.repeat(np.arange(nb), per_batch)
    seeds = []
    if target == "model":
        for r in range(len(H["series_samp"])):
            for e in range(E):
                seeds.append(int(M.decode(H["series_samp"][r, e], P)[1]))
    ks = list(range(total))
    if desc["tier"] == "quick" and total > 14:
        ks = sorted(set([0, 1, total - 1] + [int(x) for x in rng.choice(total, 11, replace=False)]))
        cnt("indices_sampled_not_all")
    # ---------------- one run per fault index
    for k in ks:
        b = int(batch_of[k])
        folder = str(ctx.scratch() / "f") if use_folder else None
        fw = dict(wit, fault_index=k, in_batch=b)
        model = None
        loss = U.FailingMinkowski(None)
        ctxs = []
        if target == "model":
            model = M.FailAtCall(D, k, Fault, kind=fkind) if n_jobs == 1 else M.FailAtSeed(D, seeds[k])
        elif target == "loss":
            loss = U.FailingMinkowski(k, interrupt=interrupt, kind=fkind, inside=inside)
        del M.RAISED[:]
        cal = build(cfg, folder, n_jobs, model=model, loss=loss, verbose=verbose)
        cwd_before = os.getcwd()
        pristine = U.FailingMinkowski(None)
        before = {t.ident for t in threading.enumerate()}
        state = {"n": 0}

        def pre_fault(self, *a, **kw):
            j = state["n"]
            state["n"] += 1
            if j == k:
                raise M.make_fault(fkind, f"sample_batch call {j}")

        raised = None
        mon = CM.RunMonitor(cal, snapshots=False)
        import contextlib

        from vlib.yieldinj import YieldInjector

        inj = YieldInjector(int(rng.integers(2**31))) if rl else contextlib.nullcontext()
        try:
            with mon, inj, quiet(), G.time_limit(FAULT_LIMIT):
                if target == "sampler":
                    with wrap_all(cal, pre_fault):
                        cal.calibrate(nb)
                else:
                    cal.calibrate(nb)
        except M.INJECTED as e:
            raised = e
        except G.Timeout:
            # wall-clock alone decides nothing; what decides is who could still make progress when the limit fired
            t = getattr(cal.scheduler, "_agent_thread", None)
            frames = sys._current_frames()
            agent_state = "no agent thread"
            if t is not None:
                if not t.is_alive():
                    agent_state = "the agent thread has exited"
                else:
                    f = frames.get(t.ident)
                    names = []
                    while f is not None:
                        names.append(f.f_code.co_name)
                        f = f.f_back
                    agent_state = "the agent thread is itself blocked in " + "/".join(names[:3]) if names[:1] and names[0] in ("wait", "get", "acquire", "_wait_for_tstate_lock") else "the agent thread is running"
            release(cal)
            if rl and agent_state != "the agent thread is running":
                out["violations"].append({"msg": f"fault at {target} invocation {k} (batch {b}): calibrate() neither raised nor returned within {FAULT_LIMIT} s; {agent_state}, "
                                                 f"so the call waits for a message nobody will send (deadlock in the session tear-down) [RL scheduler]", "witness": fw})
                cnt("deadlocks_after_fault")
                break
            out["inconclusive"] = "faulty run did not return within the time limit"
            return
        except Exception as e:  # noqa: BLE001
            raised = e
        cnt("faults_injected")
        cnt(f"faults_{target}")
        if verbose:
            cnt("faults_with_verbose_on")
        if os.getcwd() != cwd_before:
            out["violations"].append({"msg": f"fault at {target} invocation {k}: the process was left in another working directory ({os.getcwd()}), relative saving folders now point elsewhere", "witness": fw})
            os.chdir(cwd_before)
        if rl:
            cnt("faults_rl")
            cnt("rl_line_events_with_yield_injection", getattr(inj, "events", 0))
        if n_jobs == 2:
            cnt("faults_njobs2")
        if use_folder:
            cnt("faults_with_folder")
        if interrupt:
            cnt("faults_not_exception_subclass")
        out["evals"] += 1
        if b >= 1:
            out["nontrivial"].append(jhash([cfg, target, k, n_jobs, use_folder]))
        bad = []
        if raised is None:
            bad.append(f"fault at {target} invocation {k} (batch {b}) was swallowed: calibrate() returned normally")
        elif not (isinstance(raised, M.INJECTED) or (n_jobs == 2 and "InjectedFault" in type(raised).__name__)):
            bad.append(f"fault at {target} invocation {k}: calibrate() raised {type(raised).__name__}: {str(raised)[:120]} instead of the injected exception")
        elif n_jobs == 1 and M.RAISED and raised is not M.RAISED[0]:
            # in-process: "that exception" is the very object that was raised (class, arguments and attributes intact)
            bad.append(f"fault at {target} invocation {k}: calibrate() raised a different exception object ({type(raised).__name__}{raised.args!r}) than the one injected "
                       f"({type(M.RAISED[0]).__name__}{M.RAISED[0].args!r})")
        if n_jobs == 1 and len(M.RAISED) > 1:
            bad.append(f"after the fault at {target} invocation {k} the target was invoked again within the same calibrate() ({len(M.RAISED)} faults raised)")
        cnt(f"fault_class_{fkind}")
        if inside:
            cnt("loss_faults_part_way_through_an_evaluation")
        # threads
        judged, others = new_threads(before)
        if others:
            cnt("service_threads_reported", len(others))
        if judged:
            bad.append(f"after the failing batch {len(judged)} thread(s) started by the calibration are still running inside black_it code: {judged}")
            release(cal)
        # counters + history == twin prefix
        rows = int(rows_after[b - 1]) if b >= 1 else 0
        if cal.current_batch_index != b or cal.n_sampled_params != rows:
            bad.append(f"fault in batch {b}: current_batch_index={cal.current_batch_index}, n_sampled_params={cal.n_sampled_params}; {b} batches / {rows} rows were completed")
        d = S.history_equal(S.history_arrays(cal), {h: H[h][:rows] for h in S.HISTORY})
        if d:
            bad.append(f"fault at {target} invocation {k} (batch {b}): history is not the fault-free prefix of {rows} rows: " + "; ".join(d[:2]))
        # what is on disk after the failure: the checkpoint of the last completed batch, nothing newer and nothing torn
        if use_folder and not bad:
            from black_it.calibrator import Calibrator

            try:
                with quiet():
                    rest = Calibrator.restore_from_checkpoint(folder, CG.model_for(cfg))
                if b == 0:
                    bad.append("a fault in the very first batch left a restorable checkpoint although no batch was completed")
                else:
                    dd = S.history_equal(S.history_arrays(rest), {h: H[h][:rows] for h in S.HISTORY})
                    if dd or rest.current_batch_index != b:
                        bad.append(f"fault in batch {b}: the checkpoint in the saving folder restores {rest.current_batch_index} batches / differs from the {rows} completed rows: " + "; ".join(dd[:2]))
                cnt("folder_restored_after_fault")
            except Exception as e:  # noqa: BLE001
                if b >= 1:
                    bad.append(f"fault in batch {b}: the checkpoint of the completed batches can no longer be restored ({type(e).__name__}: {str(e)[:120]})")
                else:
                    cnt("folder_empty_after_fault_in_first_batch")
        # reuse
        if not bad:
            if target == "model":
                cal.model = CG.model_for(cfg)
            elif target == "loss":
                cal.loss_function.k = None
            try:
                with CM.RunMonitor(cal, snapshots=False) as mon2, quiet(), G.time_limit(G.LIMIT):
                    cal.calibrate(1)
                cnt("reuse_ok")
                nxt = mon2.batches()
                with quiet():
                    done = [x for x in mon.batches() if x[4] is not None][:b] + [x for x in nxt if x[4] is not None]
                    al = CM.check_alignment(cal, done, pristine, P, rerun_model=CG.model_for(cfg))
                bad += [f"after fault + calibrate(1): {x}" for x in al[:2]]
                if cal.current_batch_index != b + 1:
                    bad.append(f"after fault + calibrate(1): current_batch_index={cal.current_batch_index}, expected {b + 1}")
                if not rl and nxt and nxt[0][2] != b % L:
                    bad.append(f"after a fault in batch {b} the next batch was produced by position {nxt[0][2]}, round-robin prescribes {b % L}")
                j2, _ = new_threads(before)
                if j2:
                    bad.append(f"after the follow-up calibrate(1) thread(s) still running inside black_it code: {j2}")
                    release(cal)
            except G.Timeout:
                bad.append("a subsequent calibrate(1) on the same object did not return within the time limit")
                release(cal)
            except Exception as e:  # noqa: BLE001
                bad.append(f"a subsequent calibrate(1) on the same object raised {type(e).__name__}: {str(e)[:140]}")
                release(cal)
        for x in bad[:3]:
            out["violations"].append({"msg": x + (" [RL scheduler]" if rl else ""), "witness": fw})
        if len(out["violations"]) >= 4 or any("time limit" in x for x in bad):
            break
    if ks == list(range(total)):
        cnt("cases_all_indices")
    if i < 3:
        out["sample"] = {"lineup": [(d["kind"], d["batch_size"]) for d in cfg["lineup"]], "scheduler": cfg["scheduler"], "E": E, "batches": nb, "target": target,
                         "invocations_per_batch": per_batch, "fault_indices": ks, "n_jobs": n_jobs, "folder": use_folder}


CHILD = r"""
import sys, os, threading, time, json, traceback
sys.path.insert(0, os.environ["VERIF_REPO_PATH"]); sys.path.insert(1, os.environ["VERIF_PATH"])
from vlib.core import bind_repo, quiet
bind_repo()
import numpy as np
from vlib import calgen as CG, models as M
job = json.loads(open(sys.argv[1]).read())
cfg = job["cfg"]
def dump_and_exit():
    time.sleep(float(job["grace"]))
    frames = sys._current_frames()
    rep = []
    for t in threading.enumerate():
        f = frames.get(t.ident); files = []
        while f is not None:
            files.append(f.f_code.co_filename); f = f.f_back
        rep.append({"name": t.name, "daemon": t.daemon, "black_it": any("/black_it/" in x for x in files), "main": t is threading.main_thread()})
    sys.stderr.write("THREADS " + json.dumps(rep) + "\n"); sys.stderr.flush()
    os._exit(3)
def main():
    with quiet():
        cal = CG.build_calibrator(cfg, n_jobs=1, model=M.FailAtCall(cfg["D"], job["k"]))
    try:
        with quiet():
            cal.calibrate(job["batches"])
        print("NOFAULT")
    except M.InjectedFault:
        print("CAUGHT")
    threading.Thread(target=dump_and_exit, daemon=True).start()
main()
"""


def run_child(desc, ctx, out):
    rng = rng_for(desc["seed"], 11, 1, desc["i"])
    c = out["counters"]
    cfg = make_cfg(rng, 1)  # RL
    nb = 3
    d = ctx.scratch()
    k = int(rng.integers(0, cfg["E"] * 2))
    (d / "job.json").write_text(json.dumps({"cfg": cfg, "k": k, "batches": nb, "grace": 8}))
    (d / "child.py").write_text(CHILD)
    env = dict(os.environ)
    from vlib.core import VERIF, repo_path

    env.update(VERIF_REPO_PATH=str(repo_path()), VERIF_PATH=str(VERIF))
    wit = {"config": cfg, "fault_at_model_call": k, "batches": nb}
    try:
        p = subprocess.run([sys.executable, str(d / "child.py"), str(d / "job.json")], env=env, capture_output=True, text=True, timeout=120)  # noqa: S603
    except subprocess.TimeoutExpired:
        out["inconclusive"] = "child process neither exited nor reported within 120 s"
        return
    out["evals"] += 1
    if "CAUGHT" not in p.stdout:
        out["inconclusive"] = f"child did not reach the fault: {p.stdout[-200:]} {p.stderr[-300:]}"
        return
    if p.returncode == 0:
        c["child_process_exits"] = c.get("child_process_exits", 0) + 1
        out["nontrivial"].append(jhash(wit))
        return
    line = [x for x in p.stderr.splitlines() if x.startswith("THREADS ")]
    if p.returncode == 3 and line:
        rep = json.loads(line[-1][8:])
        guilty = [t for t in rep if t["black_it"] and not t["daemon"] and not t["main"]]
        if guilty:
            out["violations"].append({"msg": f"after calibrate() raised, the process cannot exit: non-daemon thread(s) {[t['name'] for t in guilty]} still inside black_it code 8 s after main returned [RL scheduler]",
                                      "witness": dict(wit, threads=rep)})
            return
        out["inconclusive"] = f"child did not exit but no black_it thread was found: {rep}"
        return
    out["inconclusive"] = f"child exit code {p.returncode}: {p.stderr[-300:]}"


def run_case(desc, ctx):
    out = {"violations": [], "counters": {}, "evals": 0, "nontrivial": []}
    {"enum": run_enum, "child": run_child}[desc["kind"]](desc, ctx, out)
    return out


def coverage_extra(merged, tier):
    c = merged["counters"]
    return {"exhaustive": c.get("indices_sampled_not_all", 0) == 0,
            "exhaustive_note": "every invocation index of every run performed was injected" if c.get("indices_sampled_not_all", 0) == 0
            else "quick tier: runs with more than 14 invocations inject first/last and 12 seeded indices; the thorough tier injects all"}
