"""C13 - Halton and R sequences are the true sequences, continued without gaps (exact references)."""
from __future__ import annotations

from decimal import Decimal, getcontext
from fractions import Fraction

import numpy as np

from vlib.core import quiet, rng_for
from vlib.hooks import DrawLog

ID = "C13"
LEVEL = "exploration"
RULE = (
    "kinds: primes (get_n_primes for growing/shrinking n vs an independent sieve), halton-fn (halton() at start indices "
    "over [0, 2^16+2^12): boundaries, powers of each base +-1, random, and once per run every prime power of the first 40 primes +-1 in 40 dimensions; d 1-40; vs exact Fraction radical inverse), "
    "halton-sampler (seeded HaltonSampler on the 2^-20 grid: start index recovered from coordinate 0 and bounded, the "
    "draw log shows the requested range, equal seeds equal starts, batch sequences n1+n2+.. equal one batch of the "
    "total from a twin, grid level equals snap(reference)), rseq (differences equal phi_d^-j mod 1 with phi_d from a "
    "60-digit solve, continuity, reseeding), lifecycle (one Halton or R-sequence object on generated spaces of 1-40 parameters "
    "incl. non-dividing / offset / tiny / huge axes through draws of 1-8 and 1025-2600 points, pickle and deepcopy round "
    "trips, re-seeding with the same or another seed, a change of search space and dimension; the monitor keeps its own cursor "
    "and every emitted coordinate must be the grid element nearest to lower + u (upper - lower) with u the exact sequence "
    "value at that cursor; near-ties between two grid elements are skipped). Non-trivial = d >= 3 and an index with a carry in some base, or a "
    "split batch sequence; distinct by (kind, d, start, sizes)."
    ' Batch sizes are also numpy integers; every fourth lifecycle case adds six seeds beyond 32 bits for both samplers (equal seed - equal start; not all six may start where their low 32 bits start).'
    ' Prime tables are requested in structured sequences on one calculator object (growing by one, doubling, a small table then a much larger one); lifecycle objects move on to spaces with more parameters.'
)
ASSUMPTIONS = [
    "the first point may be counted as k=0 or k=1: first emitted index accepted in [20, 2^16]; the draw log must show the start requested from exactly [20, 2^16)",
    "grid-level comparison skips reference points within 1e-9 of a cell mid-point",
]
REQUIRED_COUNTERS = {"halton_prime_power_indices": 200, "lifecycle_draws": 40, "lifecycle_pickle_roundtrips": 8, "lifecycle_reseed_same_seed": 5, "lifecycle_space_changes": 5, "lifecycle_moves_to_more_dimensions": 8, "lifecycle_draws_above_1024": 3, "cursor_placed_near_boundary": 6, "halton_points": 1500, "prime_tables": 20, "sampler_objects": 40, "split_sequences": 40, "rseq_points": 400, "start_draws_logged": 40}
SHARDS = {"quick": 8, "thorough": 16}


def gen_cases(tier, seed):
    k = 1 if tier == "quick" else 600
    cases = [{"kind": "primes", "i": i, "seed": seed} for i in range(4 * k)]
    cases += [{"kind": "halton-fn", "i": i, "seed": seed} for i in range(24 * k)]
    cases += [{"kind": "halton-sampler", "i": i, "seed": seed} for i in range(24 * k)]
    cases += [{"kind": "rseq", "i": i, "seed": seed} for i in range(24 * k)]
    cases += [{"kind": "lifecycle", "i": i, "seed": seed} for i in range(24 * k)]
    return cases


def sieve(n):
    limit = 50
    while True:
        flags = bytearray([1]) * (limit + 1)
        flags[0:2] = b"\x00\x00"
        for p in range(2, int(limit**0.5) + 1):
            if flags[p]:
                flags[p * p:: p] = bytearray(len(flags[p * p:: p]))
        ps = [i for i, f in enumerate(flags) if f]
        if len(ps) >= n:
            return ps[:n]
        limit *= 2


def radical_inverse(i, b):
    x, f = Fraction(0), Fraction(1, b)
    while i:
        i, r = divmod(i, b)
        x += r * f
        f /= b
    return x


def has_carry(i, bases):
    return any((i + 1) % b == 0 for b in bases)


def invert_base2(x):
    """Index whose base-2 radical inverse is x (x a dyadic rational < 1)."""
    fr = Fraction(x)
    i, w = 0, 1
    while fr:
        fr *= 2
        if fr >= 1:
            i += w
            fr -= 1
        w *= 2
        if w > 2**40:
            return None
    return i


def phi_d(d):
    getcontext().prec = 70
    lo, hi = Decimal(1), Decimal(2)
    for _ in range(230):
        mid = (lo + hi) / 2
        if mid ** (d + 1) > mid + 1:
            hi = mid
        else:
            lo = mid
    return (lo + hi) / 2


def fine_space(d):
    from black_it.search_space import SearchSpace

    return SearchSpace([[0.0] * d, [1.0] * d], [2.0**-20] * d, False)


def nearest_on_grid(grid, v):
    """(nearest grid element, ambiguous?) by brute force; ambiguous when two elements are (almost) equally near."""
    dist = np.abs(grid - v)
    j = int(np.argmin(dist))
    if len(grid) > 1:
        d2 = np.partition(dist, 1)[:2]
        amb = abs(d2[1] - d2[0]) <= 1e-9 * max(abs(grid[-1] - grid[0]) / max(len(grid) - 1, 1), 1e-300)
    else:
        amb = False
    return grid[j], amb


def run_lifecycle(rng, out, bad):
    """One sampler object through a life: draws of many sizes (also > 1024), pickle / deepcopy round trips, re-seeding with the
    same or another seed, a second search space (other bounds, other dimension).  Reference: a cursor kept by the monitor; every
    emitted row must be the snapped image of the exact sequence point at the monitor's cursor."""
    import copy
    import pickle

    from black_it.samplers.halton import HaltonSampler
    from black_it.samplers.r_sequence import RSequenceSampler

    from vlib import gen as G

    c = out["counters"]
    for _ in range(2):
        which = str(rng.choice(["halton", "rseq"]))
        seed = int(rng.integers(0, 2**32 - 1))
        bsz = int(rng.integers(1, 6))
        with quiet():
            smp = (HaltonSampler if which == "halton" else RSequenceSampler)(batch_size=bsz, random_state=seed)

        def new_space():
            d = int(rng.choice([1, 2, 3, 5, 8, 12, int(rng.integers(1, 41))]))
            sd = G.gen_space(rng, dims=d, max_points=200)
            return sd, G.build_space(sd)

        def start_of(sd_, reseeded=False):
            # the start is seed-determined, but "constructed with seed" and "re-seeded with seed" are two different (each reproducible)
            # positions of the seed's stream: the twin is brought to its start the same way as the object under test
            with quiet():
                if reseeded:
                    t = (HaltonSampler if which == "halton" else RSequenceSampler)(batch_size=1, random_state=12345)
                    t.random_state = sd_
                else:
                    t = (HaltonSampler if which == "halton" else RSequenceSampler)(batch_size=1, random_state=sd_)
            return (int(t._sequence_index), None) if which == "halton" else (int(t._sequence_index), float(t._sequence_start))

        cur, off = start_of(seed)
        if (int(smp._sequence_index) != cur) or (which == "rseq" and float(smp._sequence_start) != off):
            bad(f"{which}: two samplers constructed with seed {seed} do not start at the same place", {"seed": seed})
            continue
        sd, space = new_space()
        ops = []
        w = {"sampler": which, "seed": seed, "batch_size": bsz, "ops": ops, "space": sd}
        c["lifecycle_objects"] = c.get("lifecycle_objects", 0) + 1
        for _step in range(int(rng.integers(3, 9))):
            op = str(rng.choice(["draw", "draw", "draw", "bigdraw", "pickle", "deepcopy", "reseed_same", "reseed_other", "other_space", "more_dimensions"], p=[0.3, 0.15, 0.05, 0.05, 0.1, 0.05, 0.1, 0.05, 0.05, 0.1]))
            if _step == 1 and rng.random() < 0.3:
                op = "more_dimensions"
            if op in ("draw", "bigdraw"):
                n = int(rng.integers(1, 9)) if op == "draw" else int(rng.integers(1025, 2600))
                ops.append(["draw", n])
                d = space.dims
                with quiet():
                    got = np.asarray(smp.sample_batch(n, space, np.zeros((0, d)), np.zeros(0)))
                out["evals"] += 1
                c["lifecycle_draws"] = c.get("lifecycle_draws", 0) + 1
                if n > 1024:
                    c["lifecycle_draws_above_1024"] = c.get("lifecycle_draws_above_1024", 0) + 1
                if got.shape != (n, d):
                    bad(f"{which}: sample_batch({n}) returned shape {got.shape}", w)
                    break
                lo, up = np.asarray(space.parameters_bounds[0], dtype=float), np.asarray(space.parameters_bounds[1], dtype=float)
                if which == "halton":
                    bases = sieve(d)
                else:
                    ph = phi_d(d)
                    alpha = [Decimal(1) / ph ** j for j in range(1, d + 1)]
                rows = list(range(n)) if n <= 12 else sorted(set([0, 1, n - 1, 1023, 1024, 1025] + [int(x) for x in rng.integers(0, n, size=8)]) & set(range(n)))
                okrow = True
                for k in rows:
                    for j in range(d):
                        if which == "halton":
                            u = float(radical_inverse(cur + 1 + k, bases[j]))
                        else:
                            u = float((Decimal(off) + alpha[j] * (cur + k)) % 1)
                        v = lo[j] + u * (up[j] - lo[j])
                        ref, amb = nearest_on_grid(space.param_grid[j], v)
                        c["lifecycle_coordinates"] = c.get("lifecycle_coordinates", 0) + 1
                        if amb or got[k, j] == ref:
                            continue
                        bad(f"{which}: after {ops[:-1]} the row {k} of a draw of {n} (sequence index {cur + k + (1 if which == 'halton' else 0)}) has coordinate {j} = {got[k, j]!r}; "
                            f"the sequence point {u!r} maps to {v!r}, nearest grid element {ref!r}", w)
                        okrow = False
                        break
                    if not okrow:
                        break
                if not okrow:
                    break
                cur += n
                if len(ops) >= 2:
                    out["nontrivial"].append(f"lc:{which}:{seed}:{len(ops)}:{n}")
            elif op == "pickle":
                ops.append(["pickle round trip"])
                smp = pickle.loads(pickle.dumps(smp))
                c["lifecycle_pickle_roundtrips"] = c.get("lifecycle_pickle_roundtrips", 0) + 1
            elif op == "deepcopy":
                ops.append(["deepcopy"])
                smp = copy.deepcopy(smp)
                c["lifecycle_pickle_roundtrips"] = c.get("lifecycle_pickle_roundtrips", 0) + 1
            elif op == "reseed_same":
                ops.append(["random_state = same seed"])
                with quiet():
                    smp.random_state = seed
                cur, off = start_of(seed, reseeded=True)
                c["lifecycle_reseed_same_seed"] = c.get("lifecycle_reseed_same_seed", 0) + 1
            elif op == "reseed_other":
                seed = int(rng.integers(0, 2**32 - 1))
                ops.append(["random_state = other seed", seed])
                with quiet():
                    smp.random_state = seed
                cur, off = start_of(seed, reseeded=True)
            elif op == "more_dimensions":
                # the same object moves on to a space with (many) more parameters: its prime table / constants are extended, not rebuilt
                d_new = int(min(40, rng.choice([space.dims + 1, 2 * space.dims + 1, 5 * space.dims, 40])))
                sd = G.gen_space(rng, dims=d_new, max_points=200)
                space = G.build_space(sd)
                ops.append(["search space with more parameters", {"dims": space.dims}])
                w["space"] = sd
                c["lifecycle_space_changes"] = c.get("lifecycle_space_changes", 0) + 1
                c["lifecycle_moves_to_more_dimensions"] = c.get("lifecycle_moves_to_more_dimensions", 0) + 1
            else:
                sd, space = new_space()
                ops.append(["other search space", {"dims": space.dims}])
                w["space"] = sd
                c["lifecycle_space_changes"] = c.get("lifecycle_space_changes", 0) + 1


def run_case(desc, ctx):
    from black_it.samplers import halton as H
    from black_it.samplers.r_sequence import RSequenceSampler

    rng = rng_for(desc["seed"], 13, ["primes", "halton-fn", "halton-sampler", "rseq", "lifecycle"].index(desc["kind"]), desc["i"])
    out = {"violations": [], "counters": {}, "evals": 0, "nontrivial": []}
    c = out["counters"]

    def bad(msg, w):
        out["violations"].append({"msg": msg, "witness": w})

    kind = desc["kind"]
    if kind == "primes":
        # request sequences on ONE calculator object (its table is extended step by step): random; growing by one; doubling;
        # a small table first and a much larger one next (the square of the last prime of the first table lies inside the second)
        seqs = [[int(x) for x in rng.integers(1, 60, size=12)] + [1, 40, 41, 200, 3, 199], list(range(1, 61)), [1, 2, 4, 8, 16, 32, 64, 128, 200]]
        for a in range(1, 9):
            seqs.append([a, int(rng.integers(a + 1, 12)), int(rng.integers(12, 70)), 200])
            seqs.append([a, int(rng.choice([20, 40, 60, 100]))])
        for seq in seqs:
            calc = H._CachedPrimesCalculator()
            for n in seq:
                got = [int(x) for x in calc.get_n_primes(n)]
                exp = sieve(n)
                c["prime_tables"] = c.get("prime_tables", 0) + 1
                out["evals"] += 1
                if got != exp:
                    k_ = next((i_ for i_, (x_, y_) in enumerate(zip(got, exp)) if x_ != y_), min(len(got), len(exp)))
                    bad(f"get_n_primes({n}) after the requests {seq[:seq.index(n)]} on the same calculator: entry {k_} is {got[k_] if k_ < len(got) else None}, the {k_ + 1}-th prime is {exp[k_] if k_ < len(exp) else None}", {"requests": seq})
                    break
                if n > 40:
                    out["nontrivial"].append(f"primes:{n}:{desc['i']}")
        return out

    if kind == "halton-fn":
        if desc["i"] % 24 == 0:
            # every power p^m (p among the first 40 primes) below 2^16 + 2^12: the indices at which a digit is added in some base
            bases40 = sieve(40)
            powers = sorted({pb**e for pb in bases40 for e in range(1, 18) if pb**e < 2**16 + 2**12 - 3})
            for pw in powers:
                got = H.halton(3, np.array(bases40), pw - 2)          # indices pw-1, pw, pw+1
                for k in range(3):
                    idx = pw - 1 + k
                    ref = np.array([float(radical_inverse(idx, bb)) for bb in bases40])
                    c["halton_points"] = c.get("halton_points", 0) + 1
                    c["halton_prime_power_indices"] = c.get("halton_prime_power_indices", 0) + 1
                    if not np.all(np.abs(got[k] - ref) <= 1e-12):
                        j = int(np.argmax(np.abs(got[k] - ref)))
                        bad(f"halton point for index {idx} (next to the prime power {pw}), base {bases40[j]}: {got[k, j]!r}, radical inverse is {ref[j]!r}", {"d": 40, "start": pw - 2})
                        break
            out["evals"] += 3 * len(powers)
        for _ in range(6):
            d = int(rng.choice([1, 2, 3, 4, 5, 8, 13, 40, int(rng.integers(1, 41))]))
            bases = sieve(d)
            b = int(rng.choice(bases))
            choices = [0, 1, 19, 20, 21, 2**16 - 1, 2**16, 2**16 + 2**12 - 40, int(rng.integers(0, 2**16 + 2**12 - 40))]
            choices += [max(0, b ** int(e) + int(o)) for e in range(1, 12) for o in (-2, -1, 0) if b ** int(e) < 2**16 + 2**12 - 40]
            start = int(rng.choice(choices))
            m = int(rng.integers(1, 30))
            try:
                got = H.halton(m, np.array(bases), start)
            except Exception as e:  # noqa: BLE001
                bad(f"halton({m}, first {d} primes, {start}) raised {type(e).__name__}: {e}", {"d": d, "start": start})
                continue
            if got.shape != (m, d):
                bad(f"halton() shape {got.shape} != {(m, d)}", {"d": d, "start": start})
                continue
            for k in range(m):
                idx = start + 1 + k
                ref = np.array([float(radical_inverse(idx, bb)) for bb in bases])
                c["halton_points"] = c.get("halton_points", 0) + 1
                if not np.all(np.abs(got[k] - ref) <= 1e-12):
                    j = int(np.argmax(np.abs(got[k] - ref)))
                    bad(f"halton point for index {idx}, base {bases[j]}: {got[k, j]!r}, radical inverse is {ref[j]!r}", {"d": d, "start": start, "m": m})
                    break
                if d >= 3 and has_carry(idx - 1, bases):
                    out["nontrivial"].append(f"hf:{d}:{idx}")
            out["evals"] += m  # one evaluation per sequence point compared with the exact radical inverse
        return out

    if kind == "halton-sampler":
        from black_it.samplers.halton import HaltonSampler

        for _ in range(3):
            d = int(rng.choice([1, 2, 3, 4]))
            seed = int(rng.integers(0, 2**32 - 1))
            sizes = [int(x) for x in rng.integers(1, 9, size=int(rng.integers(1, 7)))]
            space = fine_space(d)
            bases = sieve(d)
            w = {"d": d, "seed": seed, "sizes": sizes}
            with DrawLog() as log, quiet():
                mode = int(rng.integers(0, 3))
                if mode == 0:
                    s1 = HaltonSampler(batch_size=1, random_state=seed)
                elif mode == 1:
                    s1 = HaltonSampler(batch_size=1, random_state=int(rng.integers(0, 1000)))
                    s1.random_state = seed
                else:
                    s1 = HaltonSampler(batch_size=1)
                    s1.random_state = seed
                twin = HaltonSampler(batch_size=1, random_state=int(rng.integers(0, 1000)))
                twin.random_state = seed if mode else None
                if not mode:
                    twin = HaltonSampler(batch_size=1, random_state=seed)
            w["construction"] = ["ctor(seed)", "ctor(other); reseed", "ctor(None); reseed"][mode]
            forced = None
            if rng.random() < 0.35:
                # the quantifier covers start indices up to 2^16 + 2^12: place the cursor of both objects just below a boundary
                forced = int(rng.choice([2**16, 2**16 + 2**12, 2**15, 2**16 + 1000])) - int(rng.integers(1, sum(sizes) + 1))
                s1._sequence_index = forced
                twin._sequence_index = forced
                w["cursor_placed_at"] = forced
                c["cursor_placed_near_boundary"] = c.get("cursor_placed_near_boundary", 0) + 1
            c["sampler_objects"] = c.get("sampler_objects", 0) + 1
            ints = [e for e in log.events if e[0] == "integers"]
            c["start_draws_logged"] = c.get("start_draws_logged", 0) + len(ints)
            for e in ints:
                if (e[1], e[2]) != (20, 2**16):
                    bad(f"start index requested from [{e[1]}, {e[2]}) instead of [20, 65536)", w)
            if not ints:
                bad("no start-index draw observed when the sampler was (re)seeded", w)
            npint = bool(rng.random() < 0.3)      # batch sizes computed with numpy are numpy integers
            if npint:
                c["numpy_integer_batch_sizes"] = c.get("numpy_integer_batch_sizes", 0) + 1
            with quiet():
                parts = [s1.sample_batch(np.int64(n) if npint else n, space, np.zeros((0, d)), np.zeros(0)) for n in sizes]
                whole = twin.sample_batch(sum(sizes), space, np.zeros((0, d)), np.zeros(0))
            got = np.vstack(parts)
            out["evals"] += 1
            if len(sizes) > 1:
                c["split_sequences"] = c.get("split_sequences", 0) + 1
                out["nontrivial"].append(f"hs:{d}:{seed}:{sizes}")
            if got.shape != whole.shape or not np.array_equal(got, whole):
                bad(f"batches {sizes} on one object differ from one batch of {sum(sizes)} from a twin with the same seed", dict(w, split=got, whole=whole))
                continue
            i0 = invert_base2(got[0, 0])
            if i0 is None or float(radical_inverse(i0, 2)) != got[0, 0]:
                bad(f"first coordinate {got[0, 0]!r} is not a base-2 radical inverse", w)
                continue
            if forced is None and not (20 <= i0 <= 2**16):
                bad(f"first emitted index {i0} outside [20, 2^16]", w)
            if forced is not None and i0 != forced + 1:
                bad(f"cursor placed at {forced} but the first emitted index is {i0}", w)
            for k in range(len(got)):
                ref = np.array([float(radical_inverse(i0 + k, bb)) for bb in bases])
                cell = ref * 2**20
                near_mid = np.abs(cell - np.floor(cell) - 0.5) < 1e-9 * 2**20
                snap = np.round(cell) / 2**20
                ok = near_mid | (got[k] == snap)
                c["halton_points"] = c.get("halton_points", 0) + 1
                if not ok.all():
                    j = int(np.where(~ok)[0][0])
                    bad(f"point {k} (index {i0 + k}) coordinate {j}: {got[k, j]!r}, snapped radical inverse is {snap[j]!r}", dict(w, first_index=i0))
                    break
            # equal seeds, equal starts; sample() path (dedup on a fine grid never triggers) continues the sequence
            with quiet():
                s3 = HaltonSampler(batch_size=sizes[0], random_state=seed)
                a = s3.sample(space, np.zeros((0, d)), np.zeros(0))
                if mode == 0 and forced is None and not np.array_equal(a, parts[0]):
                    bad("two samplers constructed with the same seed start at different indices", w)
        return out

    if kind == "lifecycle":
        run_lifecycle(rng, out, bad)
        if desc["i"] % 4 == 0:
            # seeds are arbitrary non-negative integers: one beyond 32 bits is a seed of its own, not its low 32 bits
            # (6 pairs: all of them agreeing by chance has probability ~1e-29)
            from black_it.samplers.halton import HaltonSampler

            for cls in (HaltonSampler, RSequenceSampler):
                space = fine_space(2)
                same = []
                seeds = [int(rng.integers(0, 2**32)) + (int(rng.integers(1, 2**31)) << int(rng.choice([32, 33, 40, 62, 96]))) for _ in range(6)]
                for big in seeds:
                    with quiet():
                        a = cls(batch_size=2, random_state=big).sample_batch(2, space, np.zeros((0, 2)), np.zeros(0))
                        b = cls(batch_size=2, random_state=big % 2**32).sample_batch(2, space, np.zeros((0, 2)), np.zeros(0))
                        a2 = cls(batch_size=2, random_state=big).sample_batch(2, space, np.zeros((0, 2)), np.zeros(0))
                    if not np.array_equal(a, a2):
                        bad(f"{cls.__name__}: two objects constructed with the seed {big} start at different points", {"seed": big})
                    same.append(bool(np.array_equal(a, b)))
                    c["seeds_beyond_32_bits"] = c.get("seeds_beyond_32_bits", 0) + 1
                out["evals"] += 1
                if all(same):
                    bad(f"{cls.__name__}: each of the seeds {seeds} starts the sequence exactly where its low 32 bits do - the start is not determined by the seed", {"seeds": seeds})
        return out

    # ---------------------------------------------------------------- rseq
    for _ in range(3):
        d = int(rng.choice([1, 2, 3, 4, 6, 10, 25, 40, int(rng.integers(1, 41))]))
        seed = int(rng.integers(0, 2**32 - 1))
        sizes = [int(x) for x in rng.integers(1, 9, size=int(rng.integers(1, 7)))]
        w = {"d": d, "seed": seed, "sizes": sizes}
        phi = phi_d(d)
        alpha = np.array([float((1 / phi) ** j % 1) for j in range(1, d + 1)])
        got_phi = RSequenceSampler.compute_phi(d)
        if abs(Decimal(got_phi) - phi) > Decimal("1e-14"):
            bad(f"compute_phi({d}) = {got_phi!r}, root of x^(d+1)=x+1 is {float(phi)!r}", w)
        with DrawLog() as log, quiet():
            mode = int(rng.integers(0, 2))
            if mode:
                s1 = RSequenceSampler(batch_size=1, random_state=int(rng.integers(0, 1000)))
                s1.random_state = seed
                twin = RSequenceSampler(batch_size=1, random_state=None)
                twin.random_state = seed
            else:
                s1 = RSequenceSampler(batch_size=1, random_state=seed)
                twin = RSequenceSampler(batch_size=1, random_state=seed)
        c["sampler_objects"] = c.get("sampler_objects", 0) + 1
        ints = [e for e in log.events if e[0] == "integers"]
        c["start_draws_logged"] = c.get("start_draws_logged", 0) + len(ints)
        with quiet():
            raw = np.vstack([s1._r_sequence(n, d) for n in sizes])
            whole = twin._r_sequence(sum(sizes), d)
        out["evals"] += 1
        if len(sizes) > 1:
            c["split_sequences"] = c.get("split_sequences", 0) + 1
            out["nontrivial"].append(f"rs:{d}:{seed}:{sizes}")
        if raw.shape != (sum(sizes), d) or not np.array_equal(raw, whole):
            bad(f"R-sequence batches {sizes} differ from one batch of {sum(sizes)} from a twin with the same seed", w)
            continue
        if not ((raw >= 0) & (raw < 1)).all():
            bad("R-sequence point outside [0,1)", w)
        diff = (raw[1:] - raw[:-1]) % 1.0
        err = np.minimum(np.abs(diff - alpha), 1 - np.abs(diff - alpha))
        c["rseq_points"] = c.get("rseq_points", 0) + len(raw)
        if len(raw) > 1 and not (err <= 1e-9).all():
            k, j = np.unravel_index(int(np.argmax(err)), err.shape)
            bad(f"consecutive R-sequence points {k},{k + 1} advance by {diff[k, j]!r} in coordinate {j}, phi_d^-(j+1) mod 1 is {alpha[j]!r}", w)
        # offset: point_0 - n0*alpha is the same offset in every coordinate (seed-determined offset, start index in range)
        # sampler level on the fine grid for d <= 4
        if d <= 4:
            space = fine_space(d)
            with quiet():
                s2 = RSequenceSampler(batch_size=1, random_state=seed)
                if mode:
                    s2.random_state = seed
                pts = np.vstack([s2.sample_batch(n, space, np.zeros((0, d)), np.zeros(0)) for n in sizes])
            cell = raw * 2**20
            near_mid = np.abs(cell - np.floor(cell) - 0.5) < 1e-9 * 2**20
            snap = np.round(cell) / 2**20
            if pts.shape != raw.shape or not (near_mid | (pts == snap)).all():
                bad("sample_batch output is not the snapped continuation of the R-sequence", w)
    return out
