"""C14 - early stopping happens exactly when the best loss rounds to zero (scripted losses through the real calibrate())."""
from __future__ import annotations

import numpy as np

from vlib import models as M
from vlib import state as S
from vlib.core import jhash, quiet, rng_for

ID = "C14"
LEVEL = "exploration"
RULE = (
    "case = block of runs; a run = (convergence precision 0-12 or None, batch size 1-3, scripted loss sequence through a model "
    "with N=1, D=1, Minkowski p=1 and zero real data so that loss == |scripted value| exactly, first converging batch at "
    "position 0..n-1 or never; a fifth of the runs with a signed user loss and negative values, 15% on a three-point grid, 30% with a history-reading third sampler (CORS / BestBatch / ParticleSwarm / XGBoost / RSequence) in the line-up, the "
    "precision given as int, numpy.int64 or numpy.int32; verbose on/off, saving folder or not, 1-3 successive calibrate(n) calls). Oracle: the number of "
    "batches run by each call equals the count up to and including the first batch whose running minimum rounds to zero at p "
    "decimals (else n); the triggering batch is in the history and in the return value; a verbose twin runs the same batches; "
    "with a folder the restored checkpoint equals the live calibrator and a further calibrate(2) on it follows the same rule. Non-trivial = convergence strictly inside the "
    "requested batches; distinct by (sequence class, p, verbose, folder, calls)."
    ' A tenth of the signed runs converge on a tiny negative value or -0.0; 15% of the multi-call runs reassign convergence_precision between two calls (the rule is evaluated with the precision in force); 6% of the runs contain a request of 20-30 batches, mostly converging late in that call.'
    ' With a folder, 60% of the runs go on for one more call and restore the folder a second time in the same process; at p = 0 the rounding boundary 0.5 and its two float neighbours are scripted.'
)
ASSUMPTIONS = ["for p >= 1 the rounding boundary 0.5*10^-p is not a float and values within 2% of it are not generated (numpy.round and an exact decimal rounding disagree there); at p = 0 the boundary 0.5, where every float rounding convention in use (half to even) gives 0, and its two neighbours are generated"]
REQUIRED_COUNTERS = {"boundary_values_at_precision_zero": 4, "second_restores_after_a_further_call": 40, "calls_of_20_batches_or_more": 10, "converging_value_negative_or_minus_zero": 12, "precision_reassigned_between_calls": 15, "same_calibration_ran_longer_in_the_folder_before": 20, "saving_folder_used_before_by_another_run": 30, "runs_with_a_history_reading_sampler": 60, "runs_with_signed_loss": 40, "runs_on_a_three_point_grid": 30, "numpy_integer_precision": 30, "continued_after_restore": 40, "runs": 200, "converged_inside": 60, "never_converged": 30, "no_precision": 10, "verbose_twins": 60, "folder_restores": 40,
                     "later_calls_after_convergence": 20}
SHARDS = {"quick": 8, "thorough": 16}


def gen_cases(tier, seed):
    n = 80 if tier == "quick" else 12000
    return [{"i": i, "seed": seed} for i in range(n)]


def expected_batches(batch_losses, ps, calls):
    """[batches run by each call] by the statement's rule (ps: the precision in force during each call)."""
    out, idx, best = [], 0, np.inf
    for n, p in zip(calls, ps):
        ran = 0
        for _ in range(n):
            best = min(best, min(batch_losses[idx]))
            idx += 1
            ran += 1
            if p is not None and np.round(best, p) == 0:
                break
        out.append(ran)
    return out


def one_run(rng, ctx, out):
    from black_it.calibrator import Calibrator
    from black_it.loss_functions.minkowski import MinkowskiLoss
    from black_it.samplers.halton import HaltonSampler
    from black_it.samplers.random_uniform import RandomUniformSampler

    c = out["counters"]
    p = None if rng.random() < 0.08 else int(rng.integers(0, 13))
    ptype = str(rng.choice(["int", "int", "int", "np.int64", "np.int32"]))      # precisions often come out of numpy arrays of settings
    signed = bool(rng.random() < 0.2)     # a loss that can be negative (log-likelihood style): a negative best loss that does not round to 0 never stops the run
    tiny_grid = bool(rng.random() < 0.15)   # fewer grid points than rows: an exhausted grid is no reason to stop
    bs = int(rng.integers(1, 4))
    calls = [int(x) for x in rng.integers(1, 7, size=int(rng.integers(1, 4)))]
    if rng.random() < 0.06:
        calls[int(rng.integers(len(calls)))] = int(rng.integers(20, 31))     # a long request: the rule is the same in batch 20 as in batch 2
        c["calls_of_20_batches_or_more"] = c.get("calls_of_20_batches_or_more", 0) + 1
    total = sum(calls)
    unit = 10.0 ** (-(p if p is not None else 3))
    mode = str(rng.choice(["inside", "inside", "first", "never", "last_of_call"]))
    if max(calls) >= 20 and rng.random() < 0.6:
        mode = "late"
    if mode == "never":
        at = None
    elif mode == "first":
        at = 0
    elif mode == "last_of_call":
        at = calls[0] - 1
    elif mode == "late":
        k20 = next(i for i, n in enumerate(calls) if n >= 20)
        at = sum(calls[:k20]) + int(rng.integers(15, calls[k20]))
    else:
        at = int(rng.integers(0, total))
    vals = (unit * rng.uniform(0.52, 50.0, size=(total, bs))).tolist()
    if at is not None:
        vals[at][int(rng.integers(bs))] = float(unit * rng.uniform(0.0, 0.48)) * float(rng.choice([1.0, 1.0, 0.0]))
        if signed and rng.random() < 0.5:
            # a best loss that is a tiny NEGATIVE number (or -0.0) rounds to zero as well
            j = int(rng.integers(bs))
            vals[at] = [abs(v) for v in vals[at]]
            vals[at][j] = -float(unit * rng.uniform(0.0, 0.48)) if rng.random() < 0.7 else -0.0
            c["converging_value_negative_or_minus_zero"] = c.get("converging_value_negative_or_minus_zero", 0) + 1
        for k in range(at + 1, total):  # later batches may or may not converge on their own; the running minimum decides
            if rng.random() < 0.3:
                vals[k][0] = float(unit * rng.uniform(0.0, 0.48))
    if p == 0 and at is not None and rng.random() < 0.7:
        # p = 0 is the one precision whose rounding boundary is a float: 0.5 itself rounds to 0 (half to even - Python's round and
        # numpy's agree), its lower neighbour too, its upper neighbour rounds to 1
        j = int(rng.integers(bs))
        vals[at] = [abs(v) for v in vals[at]]
        vals[at][j] = float(rng.choice([0.5, float(np.nextafter(0.5, 0.0))])) * (-1.0 if signed and rng.random() < 0.5 else 1.0)
        if at > 0 and rng.random() < 0.5:
            vals[at - 1][int(rng.integers(bs))] = float(np.nextafter(0.5, 1.0))
        c["boundary_values_at_precision_zero"] = c.get("boundary_values_at_precision_zero", 0) + 1
    if signed:
        for k in range(total):
            if rng.random() < 0.25 and (at is None or k != at):
                vals[k][int(rng.integers(bs))] = -float(unit * rng.uniform(0.52, 50.0))
    third = None
    if rng.random() < 0.3 and not tiny_grid:
        from vlib import gen as G

        third = G.gen_sampler_desc(rng, str(rng.choice(["CORS", "BestBatch", "ParticleSwarm", "XGBoost", "RSequence"])), batch_size=bs)
        if "max_dedup" in third:
            third["max_dedup"] = 0
        c["runs_with_a_history_reading_sampler"] = c.get("runs_with_a_history_reading_sampler", 0) + 1
    plist = [p] * len(calls)
    if len(calls) > 1 and rng.random() < 0.15:
        # convergence_precision is a public attribute: reassigned between two calls, the new value is the one in force
        for _try in range(20):
            p2 = None if rng.random() < 0.15 else int(rng.integers(0, 13))
            if p2 is None or all(not (0.49 < abs(v) * 10.0**p2 < 0.51) for b in vals for v in b):
                break
        else:
            p2 = p
        k2 = int(rng.integers(1, len(calls)))
        plist[k2:] = [p2] * (len(calls) - k2)
        if p2 != p:
            c["precision_reassigned_between_calls"] = c.get("precision_reassigned_between_calls", 0) + 1
    exp = expected_batches(vals, plist, calls)
    use_folder = rng.random() < 0.5
    seed = int(rng.integers(2**31))
    wit = {"precision": p, "precision_in_force_per_call": plist, "precision_type": ptype if p is not None else None, "batch_size": bs, "calls": calls, "scripted_losses": vals, "expected_batches_per_call": exp,
           "folder": use_folder, "signed_loss": signed, "tiny_grid": tiny_grid, "third_sampler": third}
    if signed:
        c["runs_with_signed_loss"] = c.get("runs_with_signed_loss", 0) + 1
    if tiny_grid:
        c["runs_on_a_three_point_grid"] = c.get("runs_on_a_three_point_grid", 0) + 1
    if p is not None and ptype != "int" and not use_folder:
        c["numpy_integer_precision"] = c.get("numpy_integer_precision", 0) + 1
    from vlib.userloss import RawValueLoss

    if use_folder:
        ptype = "int"   # a numpy integer precision cannot be written to calibration_params.json (TypeError at the first checkpoint): outside "precisions 0-12", noted in DESIGN.md
    pp = p if (p is None or ptype == "int") else (np.int64(p) if ptype == "np.int64" else np.int32(p))

    def run(verbose, folder):
        flat = [v for b in vals for v in b]
        model = M.Scripted(flat + [unit * 9.0] * 64)
        smp = [RandomUniformSampler(bs, max_deduplication_passes=0), HaltonSampler(bs, max_deduplication_passes=0)]
        if third is not None:
            # a history-reading sampler in the line-up: whatever it does with the losses it is lent, the stopping rule sees the recorded ones
            from vlib import gen as G

            smp.append(G.build_sampler(dict(third, batch_size=bs)))
        with quiet():
            cal = Calibrator(loss_function=RawValueLoss() if signed else MinkowskiLoss(p=1), real_data=np.zeros((1, 1)), model=model, parameters_bounds=[[0.0], [1.0]],
                             parameters_precision=[0.5 if tiny_grid else 0.0001], ensemble_size=1, samplers=smp, convergence_precision=pp, verbose=verbose,
                             saving_folder=folder, random_state=seed, n_jobs=1)
        ran, rets = [], []
        for k, n in enumerate(calls):
            if k > 0 and plist[k] != plist[k - 1]:
                cal.convergence_precision = plist[k]
            b0 = cal.current_batch_index
            with quiet():
                rets.append(cal.calibrate(n))
            ran.append(int(cal.current_batch_index - b0))
        return cal, model, ran, rets

    verbose = bool(rng.random() < 0.5)
    folder = str(ctx.scratch() / "ck") if use_folder else None
    if use_folder and rng.random() < 0.3:
        # the saving folder was used before by an unrelated calibration (other loss, line-up, shapes)
        try:
            from vlib import calgen as CG
            from vlib import gen as G2

            other_cfg = CG.gen_config(rng, kinds=G2.HISTORY_FREE, n_samplers=2, max_bs=2)
            with quiet():
                CG.build_calibrator(other_cfg, folder=folder).calibrate(2)
            c["saving_folder_used_before_by_another_run"] = c.get("saving_folder_used_before_by_another_run", 0) + 1
            wit["saving_folder_used_before_by_another_run"] = True
        except Exception:  # noqa: BLE001
            pass
    if use_folder and "saving_folder_used_before_by_another_run" not in wit and rng.random() < 0.3:
        # the very same calibration (same seed, same scripted model) was run before in this folder WITHOUT a precision, to the end:
        # the folder holds a longer history whose first rows are identical to what this run will record
        try:
            p_keep, pp_keep, plist_keep = p, pp, plist
            p, pp, plist = None, None, [None] * len(calls)
            run(False, folder)
            c["same_calibration_ran_longer_in_the_folder_before"] = c.get("same_calibration_ran_longer_in_the_folder_before", 0) + 1
            wit["same_calibration_ran_longer_in_the_folder_before"] = True
        except Exception:  # noqa: BLE001
            pass
        finally:
            p, pp, plist = p_keep, pp_keep, plist_keep
    try:
        cal, model, ran, rets = run(verbose, folder)
    except Exception as e:  # noqa: BLE001
        out["violations"].append({"msg": f"calibrate raised {type(e).__name__}: {str(e)[:160]}", "witness": dict(wit, verbose=verbose)})
        return
    c["runs"] = c.get("runs", 0) + 1
    out["evals"] += 1
    if p is None:
        c["no_precision"] = c.get("no_precision", 0) + 1
    conv_inside = any(e < n for e, n in zip(exp, calls))
    if conv_inside:
        c["converged_inside"] = c.get("converged_inside", 0) + 1
        out["nontrivial"].append(jhash([mode, p, verbose, use_folder, calls, at]))
    if exp == calls:
        c["never_converged"] = c.get("never_converged", 0) + 1
    if len(calls) > 1 and exp[0] < calls[0]:
        c["later_calls_after_convergence"] = c.get("later_calls_after_convergence", 0) + 1
    if ran != exp:
        k = next(i for i in range(len(exp)) if ran[i] != exp[i])
        out["violations"].append({"msg": f"call {k} (calibrate({calls[k]}), precision {p}, verbose={verbose}) ran {ran[k]} batches, the rounding rule gives {exp[k]}",
                                  "witness": dict(wit, verbose=verbose, ran=ran)})
    rows = sum(ran) * bs
    if cal.n_sampled_params != rows or len(cal.losses_samp) != rows:
        out["violations"].append({"msg": f"history has {len(cal.losses_samp)} rows after {sum(ran)} batches of {bs}", "witness": dict(wit, verbose=verbose)})
    else:
        flat = np.array([v for b in vals for v in b][:rows])
        if not np.array_equal(flat if signed else np.abs(flat), cal.losses_samp):
            out["violations"].append({"msg": "recorded losses are not the scripted ones (the triggering batch must be part of the history)", "witness": dict(wit, verbose=verbose)})
        if len(rets[-1][1]) != rows or not np.array_equal(np.sort(cal.losses_samp), rets[-1][1]):
            out["violations"].append({"msg": "the value returned by the last calibrate() is not the sorted recorded history", "witness": dict(wit, verbose=verbose)})
    # verbosity twin
    try:
        cal2, _m2, ran2, _r2 = run(not verbose, None)
        c["verbose_twins"] = c.get("verbose_twins", 0) + 1
        if ran2 != ran or S.history_equal(S.history_arrays(cal), S.history_arrays(cal2)):
            out["violations"].append({"msg": f"verbose={verbose} ran {ran} batches per call, verbose={not verbose} ran {ran2} (same configuration and seed)",
                                      "witness": wit})
    except Exception as e:  # noqa: BLE001
        out["violations"].append({"msg": f"verbosity twin raised {type(e).__name__}: {str(e)[:160]}", "witness": wit})
    # checkpoint holds the state calibrate() returned with
    if folder is not None:
        try:
            with quiet():
                rest = Calibrator.restore_from_checkpoint(folder, model)
            c["folder_restores"] = c.get("folder_restores", 0) + 1
            d = S.diff(S.snapshot(cal), S.snapshot(rest))
            if d:
                out["violations"].append({"msg": f"checkpoint after calibrate() (precision {p}, verbose={verbose}, ran {ran}) does not hold the returned state: " + "; ".join(d[:3]),
                                          "witness": dict(wit, verbose=verbose)})
            else:
                # the restored calibrator goes on: one more call runs at least one batch and applies the same rule
                b0 = rest.current_batch_index
                rest.saving_folder = None
                with quiet():
                    rest.calibrate(2)
                flat_all = [v for b in vals for v in b] + [unit * 9.0] * 64
                best = min(flat_all[: (b0 + 1) * bs]) if signed else min(abs(v) for v in flat_all[: (b0 + 1) * bs])
                want = 1 if (plist[-1] is not None and np.round(best, plist[-1]) == 0) else 2
                c["continued_after_restore"] = c.get("continued_after_restore", 0) + 1
                if rest.current_batch_index - b0 != want:
                    out["violations"].append({"msg": f"restored calibrator (precision {p}): calibrate(2) ran {rest.current_batch_index - b0} batches, the rounding rule gives {want}",
                                              "witness": dict(wit, verbose=verbose)})
            # the live run goes on in the same folder (one more call: at least one batch, a new checkpoint) and the folder is restored a
            # SECOND time in this process: it holds the state the last call returned with, nothing remembered from the first restore
            if not out["violations"] and rng.random() < 0.6:
                with quiet():
                    cal.calibrate(1)
                    rest2 = Calibrator.restore_from_checkpoint(folder, model)
                c["second_restores_after_a_further_call"] = c.get("second_restores_after_a_further_call", 0) + 1
                d2 = S.diff(S.snapshot(cal), S.snapshot(rest2))
                if d2:
                    out["violations"].append({"msg": f"second restore of the folder in one process, after one more calibrate(1) (precision {plist[-1]}): the checkpoint does not hold the returned state: " + "; ".join(d2[:3]),
                                              "witness": dict(wit, verbose=verbose)})
        except Exception as e:  # noqa: BLE001
            out["violations"].append({"msg": f"restore raised {type(e).__name__}: {str(e)[:160]}", "witness": wit})
    if "sample" not in out:
        out["sample"] = {"precision": p, "batch_size": bs, "calls": calls, "first_converging_batch": at, "expected": exp, "ran": ran, "verbose": verbose}


def run_case(desc, ctx):
    rng = rng_for(desc["seed"], 14, desc["i"])
    out = {"violations": [], "counters": {}, "evals": 0, "nontrivial": []}
    for _ in range(8):
        one_run(rng, ctx, out)
        if len(out["violations"]) > 3:
            break
    if desc["i"] > 1:
        out.pop("sample", None)
    return out
