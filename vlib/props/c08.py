"""C08 - the loss interface is pure, weight-linear and coordinate-symmetric (relational oracle at the API boundary)."""
from __future__ import annotations

import copy
import math

import numpy as np

from vlib import lossgen as G
from vlib.core import quiet, rng_for
from vlib.hooks import digest

ID = "C08"
LEVEL = "exploration"
RULE = (
    "case = block of (loss, data) pairs; for each pair a sequence of related evaluations on the same loss object: "
    "repeat (bitwise equal, vars(loss) unchanged, input digests unchanged), one-hot weights (L(w) = sum w_i L(e_i)), zero "
    "weight + scrambled coordinate, joint permutation of coordinates/weights/filters, ensemble permutation, sign, zero at "
    "sim==real, wrong-length weights/filters -> ValueError, new weights/filters assigned to an already evaluated object equal a "
    "fresh object with them, NaN/inf entries of the simulated data are not rewritten; ensemble sizes 1-4 and 17-33. Losses: the five built-ins with generated options and "
    "generated user losses on BaseLoss (mean-abs / max-abs / sum-squares / power-p of member-mean differences). "
    "Non-trivial = D >= 2 with non-uniform weights or a non-identity permutation; distinct by (loss descriptor, relation "
    "set, data hash)."
)
ASSUMPTIONS = [
    "weight clauses are not applied to LikelihoodLoss (it documents that it ignores weights and has no single-coordinate form)",
    "zero-weight clause only for finite values (inf*0 is NaN by IEEE); weights are non-negative for the sign clause",
    "zero-at-equality is exact for ensemble sizes 1, 2, 4 and within 1e-12 of the data scale otherwise (mean of 3 equal floats need not be exact)",
    "relations that change the summation order are compared to 1e-9 relative",
    "a repeated evaluation must agree to 1e-12 relative, not bit for bit: with HP-based filters the sparse solve (SuperLU on OpenBLAS) "
    "was observed to differ by ulps between calls depending on allocator alignment (third-party, counted as repeat_differs_by_ulps)",
]
REQUIRED_COUNTERS = {
    "purity": 200, "linearity": 100, "zero_weight": 50, "coord_perm": 100, "ens_perm": 100, "nonneg": 80, "zero_equal": 60,
    "wrong_len": 100, "user_loss": 40, "options_changed_after_evaluation": 100, "msm_inverse_variance_near_deterministic": 5, "purity_nonfinite_input": 100, "ensemble_above_16": 10,
}
SHARDS = {"quick": 16, "thorough": 16}
KINDS = ["minkowski", "msm", "fourier", "gsl", "likelihood", "user"]
USER_FORMS = ["meanabs", "maxabs", "sumsq", "power"]


def gen_cases(tier, seed):
    n = 20 if tier == "quick" else 1600
    return [{"kind": k, "i": i, "seed": seed} for i in range(n) for k in KINDS]


def make_user_loss(form, p, weights, filters):
    from black_it.loss_functions.base import BaseLoss

    class UserLoss(BaseLoss):
        def compute_loss_1d(self, sim, real):
            d = np.asarray(sim).mean(axis=0) - real
            if form == "meanabs":
                return float(np.mean(np.abs(d)))
            if form == "maxabs":
                return float(np.max(np.abs(d)))
            if form == "sumsq":
                return float(np.sum(d * d))
            return float(np.sum(np.abs(d) ** p))

    return UserLoss(None if weights is None else (np.array(weights) if all(isinstance(x, int) for x in weights) else np.array(weights, dtype=float)), None if filters is None else [G.build_filter(f) for f in filters])


def build(d):
    if d["kind"] == "user":
        return make_user_loss(d["form"], d["p"], d["weights"], d["filters"])
    return G.build_loss(d)


def snap_vars(obj):
    out = {}
    for k, v in vars(obj).items():
        if isinstance(v, np.ndarray):
            out[k] = ("arr", digest(v))
        elif callable(v) or isinstance(v, (list, tuple)):
            out[k] = ("obj", repr(v))
        else:
            out[k] = ("val", repr(v))
    return out


def close(a, b, scale=0.0):
    if a != a and b != b:
        return True
    if math.isinf(a) or math.isinf(b):
        return a == b
    return abs(a - b) <= 1e-9 * max(1.0, abs(a), abs(b), scale)


def run_case(desc, ctx):
    kind = desc["kind"]
    rng = rng_for(desc["seed"], 8, KINDS.index(kind), desc["i"])
    out = {"violations": [], "counters": {}, "evals": 0, "nontrivial": [], "skipped": 0}
    c = out["counters"]

    def cnt(k):
        c[k] = c.get(k, 0) + 1

    for rep in range(6):
        N = int(rng.integers(8, 80 if kind != "likelihood" else 40))
        D = int(rng.integers(1, 5))
        E = int(rng.integers(1, 5))
        if rng.random() < 0.1:
            E = int(rng.integers(17, 34))     # beyond any plausible internal block size, and not a multiple of one
            cnt("ensemble_above_16")
        if kind == "user":
            d = {"kind": "user", "form": str(rng.choice(USER_FORMS)), "p": float(rng.choice([1.0, 1.5, 3.0])),
                 "weights": G.gen_weights(rng, D), "filters": G.gen_filters(rng, D)}
            cnt("user_loss")
        else:
            d = G.gen_loss_desc(rng, kind, D, N)
        shapes = ["normal", "heavy", "tied", "walk", "normal"]  # keep default moments well defined
        int_data = rng.random() < 0.15
        real, sim, kinds = G.gen_data(rng, N, D, E, d["filters"], shapes, int_data=int_data)
        if int_data:
            cnt("integer_typed_data")
        wit = {"loss": d, "N": N, "D": D, "E": E, "real": real, "sim": sim, "dtype": str(sim.dtype)}

        def bad(msg, extra=None):
            out["violations"].append({"msg": f"{kind}: {msg}", "witness": dict(wit, **(extra or {}))})

        def ev(loss, s, r):
            with quiet():
                return float(loss.compute_loss(s, r))

        layout = str(rng.choice(["plain", "plain", "readonly", "strided", "fortran"]))
        if layout == "readonly":      # a loss never needs to write to what it is given
            sim.setflags(write=False)
            real.setflags(write=False)
        elif layout == "strided":     # views into larger buffers
            bs_, br_ = np.zeros((E, 2 * N, D), dtype=sim.dtype), np.zeros((2 * N, D), dtype=real.dtype)
            bs_[:, ::2, :], br_[::2, :] = sim, real
            sim, real = bs_[:, ::2, :], br_[::2, :]
        elif layout == "fortran":
            sim, real = np.asfortranarray(sim), np.asfortranarray(real)
        cnt(f"layout_{layout}")
        wit["layout"] = layout
        try:
            loss = build(d)
            before = snap_vars(loss)
            ds, dr = digest(sim), digest(real)
            v1 = ev(loss, sim, real)
        except Exception as e:  # noqa: BLE001
            bad(f"compute_loss raised {type(e).__name__}: {e}")
            continue
        out["evals"] += 1
        weights_apply = kind != "likelihood"
        w = [1.0 / D] * D if d["weights"] is None else list(d["weights"])
        nonuniform = D >= 2 and len(set(w)) > 1
        # ---- purity: inputs untouched, repeat equal after other evaluations, object attributes unchanged
        if digest(sim) != ds or digest(real) != dr:
            bad("compute_loss modified its inputs")
        try:
            real2, sim2, _ = G.gen_data(rng, N, D, E, d["filters"], shapes, int_data=int_data)
            for _k in range(int(rng.integers(1, 4))):
                ev(loss, sim2, real2)
            # ... and on data of another length / ensemble size (shape-dependent state must not stick to the object)
            N3, E3 = N + int(rng.integers(3, 20)), int(rng.integers(1, 5))
            real3, sim3, _ = G.gen_data(rng, N3, D, E3, d["filters"], shapes, int_data=int_data)
            try:
                ev(loss, sim3, real3)
            except Exception:  # noqa: BLE001  (e.g. a user matrix sized for other moments) - not this clause's subject
                pass
            v1b = ev(loss, sim, real)
            cnt("purity")
            same = v1b == v1 or (v1 != v1 and v1b != v1b) or (math.isfinite(v1) and abs(v1b - v1) <= 1e-12 * max(1.0, abs(v1)))
            if v1b != v1 and same:
                cnt("repeat_differs_by_ulps")
            if not same:
                bad(f"same inputs gave {v1!r} then {v1b!r} after other evaluations on the same object")
            if snap_vars(loss) != before:
                bad(f"loss object attributes changed by evaluation: {before} -> {snap_vars(loss)}")
        except Exception as e:  # noqa: BLE001
            bad(f"repeat evaluation raised {type(e).__name__}: {e}")
        finite = math.isfinite(v1)
        # ---- options changed on an object that has already been evaluated take effect (nothing validated earlier may stick)
        try:
            lm = build(d)
            ev(lm, sim, real)
            what = "filters" if (not weights_apply or rng.random() < 0.4) else "weights"
            if what == "weights":
                new_w = np.round(rng.random(D) * 3, 3).tolist()
                lm.coordinate_weights = np.array(new_w, dtype=float)
                fresh = build(dict(d, weights=new_w, defaults=False) if not d.get("defaults") else dict(d, weights=new_w))
            else:
                lm.coordinate_filters = [None] * D
                fresh = build(dict(d, filters=[None] * D))
            vm, vf = ev(lm, sim, real), ev(fresh, sim, real)
            cnt("options_changed_after_evaluation")
            if not close(vm, vf, abs(vf)):
                bad(f"after assigning new coordinate_{what} to an evaluated loss object it returns {vm!r}; a fresh object with these {what} returns {vf!r}")
        except Exception as e:  # noqa: BLE001
            bad(f"evaluation after changing an option raised {type(e).__name__}: {e}")
        # ---- inputs containing NaN / inf are inputs too: whatever the value, they are not rewritten
        try:
            sim_nf = np.array(sim, dtype=float, copy=True)
            for _k in range(int(rng.integers(1, 4))):
                sim_nf[int(rng.integers(sim_nf.shape[0])), int(rng.integers(N)), int(rng.integers(D))] = float(rng.choice([np.nan, np.inf, -np.inf]))
            dn = digest(sim_nf)
            try:
                with np.errstate(all="ignore"):
                    ev(build(d), sim_nf, real)
            except Exception:  # noqa: BLE001   (a filter or a third-party routine may refuse non-finite data; refusing is fine)
                cnt("nonfinite_input_refused")
            cnt("purity_nonfinite_input")
            if digest(sim_nf) != dn:
                bad("compute_loss rewrote non-finite entries of the simulated data it was given")
        except Exception as e:  # noqa: BLE001
            bad(f"non-finite purity probe raised {type(e).__name__}: {e}")
        # ---- weight linearity
        if weights_apply and finite:
            try:
                parts = []
                for i in range(D):
                    e_i = [0.0] * D
                    e_i[i] = 1.0
                    parts.append(ev(build(dict(d, weights=e_i)), sim, real))
                if all(math.isfinite(p) for p in parts):
                    tot = sum(wi * pi for wi, pi in zip(w, parts))
                    cnt("linearity")
                    if not close(v1, tot, sum(abs(wi * pi) for wi, pi in zip(w, parts))):
                        bad(f"L(w) = {v1!r} but sum_i w_i L(e_i) = {tot!r} (w = {w}, parts = {parts})")
                    # zero weight removes the coordinate
                    if D >= 2:
                        j = int(rng.integers(D))
                        wz = list(w)
                        wz[j] = 0.0
                        sim3 = sim.copy()
                        sim3[:, :, j] = sim2[:, :, j]
                        a = ev(build(dict(d, weights=wz)), sim, real)
                        b = ev(build(dict(d, weights=wz)), sim3, real)
                        if math.isfinite(a) and math.isfinite(b):
                            cnt("zero_weight")
                            if not close(a, b):
                                bad(f"weight 0 on coordinate {j} but the value depends on its data: {a!r} vs {b!r}", {"weights_used": wz})
            except Exception as e:  # noqa: BLE001
                bad(f"weighted evaluation raised {type(e).__name__}: {e}")
        # ---- joint coordinate permutation
        if D >= 2:
            perm = [int(x) for x in rng.permutation(D)]
            dp = dict(d)
            if d["weights"] is not None:
                dp["weights"] = [d["weights"][k] for k in perm]
            if d["filters"] is not None:
                dp["filters"] = [d["filters"][k] for k in perm]
            try:
                vp = ev(build(dp), sim[:, :, perm], real[:, perm])
                cnt("coord_perm")
                if not close(v1, vp, abs(v1)):
                    bad(f"joint permutation {perm} of coordinates, weights and filters changed the value {v1!r} -> {vp!r}")
                if perm != sorted(perm) or nonuniform:
                    out["nontrivial"].append(f"{kind}:{hash((repr(d), sim.tobytes(), tuple(perm))) & 0xFFFFFFFFFFFF:x}")
            except Exception as e:  # noqa: BLE001
                bad(f"permuted evaluation raised {type(e).__name__}: {e}")
        # ---- ensemble permutation (built-ins and the generated user losses are member-symmetric)
        if E >= 2:
            pe = [int(x) for x in rng.permutation(E)]
            try:
                ve = ev(loss, sim[pe], real)
                cnt("ens_perm")
                if not close(v1, ve, abs(v1)):
                    bad(f"reordering ensemble members {pe} changed the value {v1!r} -> {ve!r}")
            except Exception as e:  # noqa: BLE001
                bad(f"ensemble-permuted evaluation raised {type(e).__name__}: {e}")
        # ---- sign
        signed = kind in ("minkowski", "fourier") or (kind == "msm" and d["cov"] in ("identity", "inverse_variance"))
        if signed and finite and all(wi >= 0 for wi in w):
            cnt("nonneg")
            if v1 < 0:
                bad(f"negative value {v1!r}")
        # ---- inverse-variance MSM on an ensemble that almost reproduces high-level data: the weights are variances, i.e. positive
        if kind == "msm" and d.get("cov") == "inverse_variance" and not int_data:
            try:
                level = float(10.0 ** rng.uniform(3, 6))
                walk = np.cumsum(rng.normal(size=(N, D)), axis=0)
                real_h = level + walk
                sim_h = real_h[None, :, :] + rng.normal(size=(max(E, 3), N, D)) * float(10.0 ** rng.uniform(-4, -2))
                vh = ev(build(dict(d, filters=None, weights=None)), sim_h, real_h)
                cnt("msm_inverse_variance_near_deterministic")
                if vh != vh or vh < 0 or math.isinf(vh):
                    bad(f"inverse-variance MSM on an ensemble that differs from high-level data (level {level:.3g}) by small noise returned {vh!r}: "
                        "a weighted sum of squares with positive weights is finite and non-negative", {"level": level})
            except Exception as e:  # noqa: BLE001
                bad(f"evaluation on a nearly deterministic ensemble raised {type(e).__name__}: {e}")
        # ---- zero when every member equals the real data (no filters: they act on the simulated side only)
        zero_kind = kind in ("minkowski", "fourier") or (kind == "msm" and d["cov"] == "identity")
        if zero_kind and kind == "msm" and d["standardise"]:
            from vlib import lossref as _R

            calc = _R.moments18 if d["calc"] == "default" else G.CALCS[d["calc"]][0]
            try:
                rms = [np.asarray(calc(np.asarray(real[:, i], dtype=float)), dtype=float) for i in range(D)]
                if any((not np.all(np.isfinite(m))) or np.any(np.abs(m) < 1e-9) for m in rms):
                    zero_kind = False   # standardisation divides by |real moment|: undefined when one vanishes
                else:
                    cnt("zero_equal_standardised")
            except Exception:  # noqa: BLE001
                zero_kind = False
        if zero_kind and kind == "fourier" and d["filter"] == "gaussian" and round(d["f"] * (N // 2 + 1)) == 0:
            zero_kind = False  # Gaussian length scale rounds to 0: the filter (and so the loss) is undefined (0/0), as in C07's guard
            cnt("zero_equal_skipped_sigma0")
        if zero_kind:
            try:
                d0 = dict(d, filters=None)
                same = np.repeat(real[None, :, :], E, axis=0)
                v0 = ev(build(d0), same, real)
                cnt("zero_equal")
                scale = float(np.max(np.abs(real))) * N
                lim = 0.0 if E in (1, 2, 4) else 1e-12 * max(1.0, scale)
                if not (abs(v0) <= lim):
                    bad(f"every member equals the real data but the value is {v0!r}")
            except Exception as e:  # noqa: BLE001
                bad(f"evaluation at sim == real raised {type(e).__name__}: {e}")
        # ---- wrong lengths
        for what in ("weights", "filters"):
            if what == "weights" and not weights_apply:
                continue
            L = int(rng.choice([x for x in (0, D - 1, D + 1, D + 3) if x >= 0 and x != D]))
            dd = dict(d)
            dd[what] = [1.0] * L if what == "weights" else [None] * L
            try:
                r = ev(build(dd), sim, real)
                cnt("wrong_len")
                bad(f"{what} of length {L} for {D} coordinates accepted (returned {r!r}) instead of ValueError")
            except ValueError:
                cnt("wrong_len")
            except Exception as e:  # noqa: BLE001
                cnt("wrong_len")
                bad(f"{what} of length {L} for {D} coordinates raised {type(e).__name__} instead of ValueError: {e}")
        if "sample" not in out and desc["i"] == 0:
            out["sample"] = {"loss": d, "N": N, "D": D, "E": E, "value": v1}
    return out
