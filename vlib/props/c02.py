"""C02 - the recorded history is aligned, truthful and append-only (monitor on the real calibrate() loop)."""
from __future__ import annotations

import numpy as np

from vlib import calgen as CG
from vlib import calmon as CM
from vlib import gen as G
from vlib import models as M
from vlib.core import jhash, quiet, rng_for

ID = "C02"
LEVEL = "exploration"
RULE = (
    "case = generated calibrator configuration (1-4 parameters, line-up of 1-5 samplers from the nine built-ins with batch "
    "sizes 1-4, ensemble 1-3, any built-in loss with options, witness model in plain / 1e300 / +inf / >float32 variants, "
    "sim_length shorter or longer than len(real_data) for losses that allow it; a fifth of the cases on a grid with fewer "
    "points than rows so that proposals repeat; a seventh with a coarse user loss producing exact ties and NaN; the n_jobs=2 "
    "cases with a model whose run time varies per task) driven through 1-4 successive calibrate(n) calls with set_samplers "
    "or set_scheduler (fresh round-robin scheduler, or one that already served another calibrator) between calls. With "
    "n_jobs=1 every model invocation is recorded: invocation r*E+e must be (recorded vector of row r, seed decoded from "
    "member e) and the count must be rows x ensemble. "
    "At every batch boundary and after every calibrate() the history is snapshotted; oracle per row: parameters == what the "
    "designated sampler returned, each ensemble member decodes to that vector and the configured length and equals a re-run "
    "of the model on (vector, N, decoded seed), loss == loss function on the recorded series (pristine copy), consecutive "
    "batch labels with the proposed multiplicity, sampler label == id of the designated class; snapshots are byte-prefixes of "
    "later ones; the return value is the recorded pairs sorted by loss. Non-trivial = batch size >= 2 and ensemble >= 2 in "
    "the same run, or an extreme-loss history with a history-reading sampler; distinct by configuration hash."
    " A tenth of the plain-model cases simulate as many periods as there are variables (4-6): a member's series is then a square array."
)
ASSUMPTIONS = [
    "a recomputed loss within 1e-12 relative of the recorded one counts as equal (BLAS summation order may depend on buffer alignment); counted as loss_ulp_wobble",
    "third-party estimator failures on extreme histories end the run early (counted), they are C11's subject, not C02's",
]
REQUIRED_COUNTERS = {"cases_with_as_many_periods_as_variables": 1, "batch_size_changed_between_calls": 3, "runs_converging_every_batch": 5, "rl_scheduled_runs": 3, "failed_batches_then_continued": 5, "model_invocations_matched": 200, "runs_with_repeated_proposals": 5, "runs_with_tied_losses": 4, "runs": 30, "rows_checked": 200, "members_decoded": 300, "losses_recomputed": 200, "snapshots": 100,
                     "multi_call_runs": 10, "extreme_runs": 5, "tile_repeat_distinguishable": 5}
SHARDS = {"quick": 16, "thorough": 16}
SHARD_WATCHDOG = {"quick": 1500, "thorough": 10800}


def gen_cases(tier, seed):
    n = 160 if tier == "quick" else 12000
    return [{"i": i, "seed": seed} for i in range(n)]


def run_case(desc, ctx):
    rng = rng_for(desc["seed"], 2, desc["i"])
    out = {"violations": [], "counters": {}, "evals": 0, "nontrivial": []}
    c = out["counters"]
    model = str(rng.choice(["plain", "plain", "mut", "huge", "inf", "f32"]))
    n_jobs = 2 if desc["i"] % 8 == 5 else 1
    if n_jobs == 2 and model == "plain":
        model = "slow"          # tasks of one batch finish out of submission order
    tiny = desc["i"] % 5 == 1    # fewer grid points than rows: proposals repeat (de-duplication gives up, PSO/CORS never de-duplicate)
    tied = desc["i"] % 7 == 2    # a user loss with many exactly equal values and some NaN
    cheap = desc["i"] % 3 != 0
    plainish = model in ("plain", "mut", "slow")
    kinds = G.CHEAP + ["XGBoost"] if (cheap or not plainish) else None
    rl = desc["i"] % 6 == 4 and n_jobs == 1 and plainish      # the RL scheduler designates the samplers (bootstrap Halton first, then the agent's choices)
    square = model == "plain" and desc["i"] % 10 == 8      # simulation length == number of variables (4-6): a member's series is a square array
    if square:
        c["cases_with_as_many_periods_as_variables"] = 1
    cfg = CG.gen_config(rng, kinds=(["RandomUniform", "RSequence", "ParticleSwarm", "Halton"] if rl else kinds), model=model, max_bs=4, n_samplers=int(rng.integers(1, 6)),
                        scheduler="rl" if rl else None, square=square,
                        loss_kinds=["minkowski"] if (tied or square) else (["minkowski", "minkowski", "msm", "fourier"] if not plainish else None),
                        **({"max_points": 3, "max_params": 2} if tiny else {}))
    if not plainish and rng.random() < 0.7:  # make sure a history reader meets the extreme losses
        cfg["lineup"].append(G.gen_sampler_desc(rng, str(rng.choice(["XGBoost", "BestBatch", "ParticleSwarm"])), batch_size=1))
    if rl:
        seen_h = False
        for d_ in cfg["lineup"]:
            if d_["kind"] == "Halton":
                if seen_h:
                    d_["kind"] = "RSequence"
                seen_h = True
        c["rl_scheduled_runs"] = 1
    always_converged = desc["i"] % 9 == 7 and not rl    # every batch meets the convergence criterion: each call returns after one batch
    if always_converged:
        cfg["conv"] = 2
        c["runs_converging_every_batch"] = 1
    calls = [int(x) for x in rng.integers(1, 4, size=int(rng.integers(1, 5)))]
    wit = {"config": cfg, "calls": calls, "n_jobs": n_jobs, "user_loss_with_ties": tied}
    model_fn = CG.model_for(cfg)
    counting = M.Counting(model_fn) if n_jobs == 1 else None
    try:
        with quiet():
            user_loss = None
            if tied:
                from vlib.userloss import TiedLoss

                user_loss = TiedLoss(p=2)
            cal = CG.build_calibrator(cfg, n_jobs=n_jobs, model=counting, loss=user_loss)
            pristine = CM.pristine(cal.loss_function)
            if always_converged:
                cal.check_convergence = lambda *a, **k: True
                wit["convergence_met_by_every_batch"] = True
    except Exception as e:  # noqa: BLE001
        out["violations"].append({"msg": f"constructor raised {type(e).__name__}: {e}", "witness": wit})
        return out
    done_batches = 0
    with CM.RunMonitor(cal) as mon:
        for ci, n in enumerate(calls):
            if ci > 0 and cfg["scheduler"] != "rl" and rng.random() < 0.3:
                # a legitimate reconfiguration between calls: rows recorded so far must keep their meaning
                rows_now = int(cal.n_sampled_params)
                new = G.gen_lineup(rng, n=int(rng.integers(1, 4)), kinds=G.HISTORY_FREE + (["BestBatch"] if rows_now >= 2 else []), max_bs=2)
                with quiet():
                    cal.set_samplers([G.build_sampler(d) for d in new])
                wit.setdefault("set_samplers_before_call", {})[ci] = [d["kind"] for d in new]
                c["set_samplers_between_calls"] = c.get("set_samplers_between_calls", 0) + 1
            elif ci > 0 and cfg["scheduler"] != "rl" and rng.random() < 0.2:
                # the scheduler is replaced by a new round-robin one (fresh, or one that already served another calibrator)
                from black_it.schedulers.round_robin import RoundRobinScheduler

                new = G.gen_lineup(rng, n=int(rng.integers(1, 4)), kinds=G.HISTORY_FREE, max_bs=2)
                sch = RoundRobinScheduler([G.build_sampler(d) for d in new])
                used = bool(rng.random() < 0.5)
                with quiet():
                    if used:
                        try:
                            other = CG.build_calibrator(cfg)
                            other.set_scheduler(sch)
                            other.calibrate(int(rng.integers(1, 4)))
                        except Exception:  # noqa: BLE001   (e.g. a loss that refuses non-finite series: the scheduler has served anyway)
                            pass
                    cal.set_scheduler(sch)
                wit.setdefault("set_scheduler_before_call", {})[ci] = {"lineup": [d["kind"] for d in new], "served_another_calibrator_before": used}
                c["set_scheduler_between_calls"] = c.get("set_scheduler_between_calls", 0) + 1
            if ci > 0 and rng.random() < 0.15 and not rl:
                # a public attribute changed between two calls (adaptive batch sizes): rows and labels follow what is actually proposed
                smp_ = cal.scheduler.samplers[int(rng.integers(len(cal.scheduler.samplers)))]
                if type(smp_).__name__ not in ("ParticleSwarmSampler", "BestBatchSampler"):
                    smp_.batch_size = int(rng.integers(1, 5))
                    c["batch_size_changed_between_calls"] = c.get("batch_size_changed_between_calls", 0) + 1
                    wit.setdefault("batch_size_changed_before_call", []).append(ci)
            if ci > 0 and counting is not None and rng.random() < 0.2:
                # one batch fails in the model (nothing of it may be recorded), then the run simply goes on
                good = cal.model
                cal.model = M.FailAtCall(cfg["D"], 0)
                try:
                    with quiet():
                        cal.calibrate(1)
                except M.InjectedFault:
                    c["failed_batches_then_continued"] = c.get("failed_batches_then_continued", 0) + 1
                    wit.setdefault("a_batch_failed_before_call", []).append(ci)
                except Exception:  # noqa: BLE001
                    pass
                finally:
                    cal.model = good
            try:
                with quiet(), G.time_limit(G.LIMIT):
                    ret_now = cal.calibrate(n)
                done_batches += 1 if always_converged else n
                # what is handed back belongs to the caller: it may sort / rescale it without touching the records
                if isinstance(ret_now, tuple) and len(ret_now) == 2 and (np.shares_memory(ret_now[0], cal.params_samp) or np.shares_memory(ret_now[1], cal.losses_samp)):
                    out["violations"].append({"msg": "calibrate() returned arrays that share memory with the recorded history (a caller sorting its result would rewrite recorded rows)", "witness": wit})
            except G.Timeout:
                c["third_party_timeout"] = c.get("third_party_timeout", 0) + 1
                break
            except Exception as e:  # noqa: BLE001
                c["run_ended_by_exception"] = c.get("run_ended_by_exception", 0) + 1
                wit["ended_by"] = f"{type(e).__name__}: {str(e)[:100]}"
                break
    c["runs"] = 1
    out["evals"] = 1
    if len(calls) > 1:
        c["multi_call_runs"] = 1
    if model == "mut":
        c["models_mutating_their_argument"] = 1
    elif model == "slow":
        c["models_with_uneven_run_time"] = 1
    elif model != "plain":
        c["extreme_runs"] = 1
    batches = [b for b in mon.batches()]
    completed = [b for b in batches if b[4] is not None][: int(cal.current_batch_index)]
    with quiet():
        bad = CM.check_alignment(cal, completed, pristine, cfg["P"], rerun_model=model_fn, counters=c)
    c["rows_checked"] = int(cal.n_sampled_params)
    if counting is not None:
        # the model is run once per ensemble member of every recorded row, in row order, on the recorded vector
        n_rows, E = int(cal.n_sampled_params), int(cal.ensemble_size)
        calls_seen = counting.calls
        if "ended_by" not in wit and c.get("third_party_timeout", 0) == 0 and len(calls_seen) != n_rows * E:
            bad.append(f"{n_rows} rows x ensemble {E} recorded but the model was invoked {len(calls_seen)} times (every member must be simulated)")
        elif len(calls_seen) < n_rows * E:
            bad.append(f"{n_rows} rows x ensemble {E} recorded but the model was invoked only {len(calls_seen)} times")
        else:
            for r in range(n_rows):
                for e in range(E):
                    th, sd, nn = calls_seen[r * E + e]
                    dec = M.decode(cal.series_samp[r][e], cfg["P"]) if cal.series_samp[r].shape[0] == E else None
                    if th != np.asarray(cal.params_samp[r], dtype=float).tobytes() or (dec is not None and int(dec[1]) != sd):
                        bad.append(f"row {r} member {e}: invocation {r * E + e} of the model was not made on the recorded vector/seed of that row")
                        break
                else:
                    continue
                break
        c["model_invocations_matched"] = c.get("model_invocations_matched", 0) + min(len(calls_seen), n_rows * E)
        if len({bytes(np.asarray(p, dtype=float).tobytes()) for p in cal.params_samp}) < n_rows:
            c["runs_with_repeated_proposals"] = 1
    if tied:
        ls = cal.losses_samp
        if len(ls) > len(set(repr(float(x)) for x in ls)):
            c["runs_with_tied_losses"] = 1
        if np.any(np.isnan(ls)):
            c["runs_with_nan_losses"] = 1
    c["snapshots"] = len(mon.snaps)
    bad += CM.check_prefixes(mon.snaps)
    for e in mon.events:
        if e[0] == "return":
            last_ret = e
    rets = [e for e in mon.events if e[0] == "return"]
    if rets and done_batches == (len(calls) if always_converged else sum(calls)):
        bad += CM.check_return(cal, rets[-1][1], rets[-1][2])
    if cal.current_batch_index != done_batches and "ended_by" not in wit and c.get("third_party_timeout", 0) == 0:
        bad.append(f"current_batch_index {cal.current_batch_index} after {done_batches} completed batches")
    for b in bad[:4]:
        out["violations"].append({"msg": b, "witness": wit})
    multi = any(d["batch_size"] >= 2 for d in cfg["lineup"]) and cfg["E"] >= 2
    if multi:
        c["tile_repeat_distinguishable"] = 1
    reader = any(d["kind"] not in G.HISTORY_FREE or d["kind"] == "ParticleSwarm" for d in cfg["lineup"])
    if multi or (model != "plain" and reader):
        out["nontrivial"].append(jhash(cfg))
    if desc["i"] < 2 or "ended_by" in wit:
        out["sample"] = {"lineup": [(d["kind"], d["batch_size"]) for d in cfg["lineup"]], "E": cfg["E"], "N": cfg["N"], "D": cfg["D"], "loss": cfg["loss"]["kind"],
                         "model": model, "calls": calls, "rows": int(cal.n_sampled_params), "snapshots": len(mon.snaps),
                         "losses_head": cal.losses_samp[:4], "ended_by": wit.get("ended_by")}
    return out
