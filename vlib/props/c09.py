"""C09 - samplers are scheduled exactly as the chosen scheduler prescribes."""
from __future__ import annotations

import itertools

import numpy as np

from vlib import calgen as CG
from vlib import calmon as CM
from vlib import gen as G
from vlib.core import jhash, quiet, rng_for
from vlib.hooks import Wrap

ID = "C09"
LEVEL = "exploration"
RULE = (
    "kinds. rr: line-ups of 1-6 cheap samplers (repeated classes, batch sizes 1-3) given as a list or as a RoundRobinScheduler, "
    "1-12 batches; for n <= 5 every composition of n into calibrate() calls, each boundary with or without checkpoint/restore, "
    "sampled beyond; oracle: the i-th batch over the calibrator's life is produced by the object at position i mod n of the "
    "scheduler's sampler tuple and has that sampler's batch size; variants: one sampler object twice in the line-up, the caller "
    "mutating its list after construction, the scheduler re-seeded between calls, a convergence criterion met by every batch "
    "(each call stops after one batch and the rotation continues). rl: RLScheduler with scripted or epsilon-greedy agents, with "
    "and without a supplied Halton sampler (then with n or n+1 actions), 1-3 sessions plus sessions without batches, losses "
    "including exact 0.0 and a non-finite bootstrap loss; oracle: first batch ever by the bootstrap Halton sampler (the "
    "supplied one if present), every later batch by samplers[a] for the k-th policy result a of its session, only supplied "
    "samplers or the bootstrap are used; a third of the RL runs with verbose=True; switch: a round-robin calibration handed an "
    "RLScheduler in mid-run (its first batch is its own bootstrap batch, then the agent's choices). ctor: the four samplers/scheduler argument combinations; exactly one accepted, "
    "both-or-neither -> ValueError. Non-trivial = n >= 2 with a split or restore not on a multiple of n; distinct by "
    "(line-up, cut labelling)."
)
ASSUMPTIONS = ["cheap sampler classes only (order, not numerics, is at stake)", "the RL scheduler cannot be checkpointed (known finding under C04): RL runs use no restore"]
REQUIRED_COUNTERS = {"rr_to_rl_switches": 4, "rl_runs_with_verbose_on": 6, "rr_lineups_with_one_object_twice": 1, "rr_runs_converging_every_batch": 5, "rr_scheduler_reseeded_between_calls": 8, "rr_caller_mutated_its_list": 5, "rl_sessions_without_batches": 3, "rl_agent_may_choose_the_appended_bootstrap": 3, "rr_set_samplers_between_calls": 10, "rr_failed_batches_then_retry": 10, "rl_runs_with_a_zero_loss": 5, "rr_batches": 300, "rr_runs": 60, "rr_restores": 40, "rl_batches": 60, "rl_sessions": 25, "ctor_combinations": 8}
SHARDS = {"quick": 16, "thorough": 16}
SHARD_WATCHDOG = {"quick": 1500, "thorough": 10800}


def gen_cases(tier, seed):
    k = 1 if tier == "quick" else 80
    cases = [{"kind": "rr", "i": i, "seed": seed} for i in range(40 * k)]
    cases += [{"kind": "rl", "i": i, "seed": seed} for i in range(40 * k)]
    cases += [{"kind": "ctor", "i": i, "seed": seed} for i in range(2)]
    cases += [{"kind": "switch", "i": i, "seed": seed} for i in range(8 * k)]
    return cases


def compositions(n):
    for cuts in itertools.product((0, 1), repeat=n - 1):
        parts, cur = [], 1
        for c in cuts:
            if c:
                parts.append(cur)
                cur = 1
            else:
                cur += 1
        parts.append(cur)
        yield parts


def run_rr(desc, ctx, out):
    from black_it.calibrator import Calibrator

    rng = rng_for(desc["seed"], 9, 0, desc["i"])
    c = out["counters"]
    cfg = CG.gen_config(rng, kinds=G.CHEAP, n_samplers=int(rng.integers(1, 7)), max_bs=3, loss_kinds=["minkowski"], max_params=2, ensemble=1,
                        scheduler=str(rng.choice(["list", "rr"])))
    L = len(cfg["lineup"])
    if L >= 3 and desc["i"] % 5 == 1:
        # the same sampler object twice in the line-up (double weight for one strategy): still n positions
        i0, j0 = 0, int(rng.integers(2, L))
        cfg["lineup"][j0] = dict(cfg["lineup"][i0])
        cfg["alias"] = [[i0, j0]]
        c["rr_lineups_with_one_object_twice"] = c.get("rr_lineups_with_one_object_twice", 0) + 1
    always_converged = desc["i"] % 6 == 4    # the convergence criterion is met by every batch: each calibrate() call stops after one batch
    if always_converged:
        cfg["conv"] = 3
    n = int(rng.integers(1, 6)) if desc["i"] % 2 == 0 else int(rng.integers(6, 13))
    comps = list(compositions(n)) if n <= 5 else [sorted(rng.choice(range(1, n), size=int(rng.integers(1, 4)), replace=False).tolist()) for _ in range(3)]
    if n > 5:
        comps = [[b - a for a, b in zip([0] + cs, cs + [n])] for cs in comps]
    model = CG.model_for(cfg)
    for parts in comps[:16]:
        restores = [bool(rng.random() < 0.5) for _ in parts[:-1]]
        wit = {"lineup": [(d["kind"], d["batch_size"]) for d in cfg["lineup"]], "scheduler": cfg["scheduler"], "calls": parts, "restore_after_call": restores}
        folder = str(ctx.scratch() / "ck")
        keep = {}
        with quiet():
            cal = CG.build_calibrator(cfg, folder=folder, keep=keep)
        if cfg["scheduler"] == "list" and rng.random() < 0.3:
            # the caller goes on using its list (appends a sampler for another experiment, reverses it): the running line-up is unaffected
            keep["samplers"].append(G.build_sampler(G.gen_sampler_desc(rng, "RandomUniform", batch_size=3)))
            keep["samplers"].reverse()
            c["rr_caller_mutated_its_list"] = c.get("rr_caller_mutated_its_list", 0) + 1
            wit["caller_mutated_its_list_after_construction"] = True
        if always_converged:
            cal.check_convergence = lambda *a, **k: True
            wit["convergence_met_by_every_batch"] = True
        order = []
        lineups = [list(cfg["lineup"])]      # line-up in force for each batch index
        cur_lineup = list(cfg["lineup"])
        expect = []
        try:
            for k, m in enumerate(parts):
                if k > 0 and rng.random() < 0.2:
                    newl = G.gen_lineup(rng, n=int(rng.integers(1, 4)), kinds=G.HISTORY_FREE + (["BestBatch"] if cal.n_sampled_params >= 2 else []), max_bs=2)
                    for d_ in newl:
                        if d_["kind"] == "BestBatch":
                            d_["batch_size"] = 1
                    with quiet():
                        cal.set_samplers([G.build_sampler(d_) for d_ in newl])
                    cur_lineup = newl
                    c["rr_set_samplers_between_calls"] = c.get("rr_set_samplers_between_calls", 0) + 1
                    wit.setdefault("set_samplers_before_call", {})[k] = [(d_["kind"], d_["batch_size"]) for d_ in newl]
                if k > 0 and rng.random() < 0.15:
                    # re-seeding the scheduler (e.g. after a restore, for a reproducible continuation) does not move the rotation
                    cal.scheduler.random_state = int(rng.integers(2**31))
                    c["rr_scheduler_reseeded_between_calls"] = c.get("rr_scheduler_reseeded_between_calls", 0) + 1
                    wit.setdefault("scheduler_reseeded_before_call", []).append(k)
                expect += [cur_lineup] * (1 if always_converged else m)
                if k > 0 and rng.random() < 0.25:
                    # a batch fails (the model raises once) and the user simply calls calibrate() again: the schedule must not shift
                    from vlib import models as MM

                    good = cal.model
                    cal.model = MM.FailAtCall(cfg["D"], 0)
                    try:
                        with quiet():
                            cal.calibrate(1)
                    except MM.InjectedFault:
                        c["rr_failed_batches_then_retry"] = c.get("rr_failed_batches_then_retry", 0) + 1
                    finally:
                        cal.model = good
                with CM.RunMonitor(cal, snapshots=False) as mon:
                    with quiet():
                        cal.calibrate(m)
                for (bidx, smp, pos, cname, ret) in mon.batches():
                    order.append((pos, cname, None if ret is None else len(ret), smp.batch_size, smp, tuple(cal.scheduler.samplers)))
                if k < len(parts) - 1 and restores[k]:
                    with quiet():
                        cal = Calibrator.restore_from_checkpoint(folder, model)
                    if always_converged:
                        cal.check_convergence = lambda *a, **k: True
                    c["rr_restores"] = c.get("rr_restores", 0) + 1
        except Exception as e:  # noqa: BLE001
            out["violations"].append({"msg": f"run raised {type(e).__name__}: {str(e)[:160]}", "witness": wit})
            return
        c["rr_runs"] = c.get("rr_runs", 0) + 1
        out["evals"] += 1
        n_exp = len(parts) if always_converged else n
        if always_converged:
            c["rr_runs_converging_every_batch"] = c.get("rr_runs_converging_every_batch", 0) + 1
        if len(order) != n_exp:
            out["violations"].append({"msg": f"{len(order)} batches were scheduled for calls {parts}" + (" (each call stops after one batch)" if always_converged else ""), "witness": wit})
            continue
        for i, (pos, cname, rows, bs, smp, tup) in enumerate(order):
            c["rr_batches"] = c.get("rr_batches", 0) + 1
            Li = len(expect[i])
            exp = expect[i][i % Li]
            if len(tup) != Li or tup[i % Li] is not smp:     # identity, not first index: an object may sit at two positions
                out["violations"].append({"msg": f"batch {i} of the calibrator's life was produced by position {pos} ({cname}), round-robin over {Li} samplers prescribes position {i % Li} "
                                                 f"(calls {parts}, restore after call {restores})", "witness": wit})
                break
            if rows != exp["batch_size"] or cname != G.class_name(exp["kind"]):
                out["violations"].append({"msg": f"batch {i}: {rows} rows from {cname}, prescribed {exp['batch_size']} rows from {G.class_name(exp['kind'])}", "witness": wit})
                break
        n = n_exp
        exp_rows = sum(expect[i][i % len(expect[i])]["batch_size"] for i in range(n))
        if cal.n_sampled_params != exp_rows:
            out["violations"].append({"msg": f"{cal.n_sampled_params} rows recorded, the prescribed batches sum to {exp_rows}", "witness": wit})
        bn = np.repeat(np.arange(n), [expect[i][i % len(expect[i])]["batch_size"] for i in range(n)])
        if cal.n_sampled_params == exp_rows and not np.array_equal(cal.batch_num_samp, bn):
            out["violations"].append({"msg": f"batch labels {cal.batch_num_samp.tolist()} expected {bn.tolist()}", "witness": wit})
        n = sum(parts)
        cuts = np.cumsum(parts)[:-1]
        if L >= 2 and any(int(x) % L for x in cuts):
            out["nontrivial"].append(jhash([wit]))
    if desc["i"] < 2:
        out["sample"] = {"lineup": wit["lineup"], "batches": n, "calls": parts, "order_observed": [o[0] for o in order]}


def run_rl(desc, ctx, out):
    from black_it.samplers.halton import HaltonSampler
    from black_it.schedulers.rl.agents.base import Agent
    from black_it.schedulers.rl.agents.epsilon_greedy import MABEpsilonGreedy

    rng = rng_for(desc["seed"], 9, 1, desc["i"])
    c = out["counters"]
    cfg = CG.gen_config(rng, kinds=["RandomUniform", "RSequence", "BestBatch", "ParticleSwarm", "Halton"], n_samplers=int(rng.integers(1, 5)), max_bs=2,
                        loss_kinds=["minkowski"], max_params=2, ensemble=1, scheduler="rl")
    # at most one Halton in the supplied set (the scheduler looks the bootstrap up by type)
    seenh = False
    for d in cfg["lineup"]:
        if d["kind"] == "Halton":
            if seenh:
                d["kind"] = "RandomUniform"
            seenh = True
    for d in cfg["lineup"]:
        if d["kind"] == "BestBatch":
            d["batch_size"] = 1
    if cfg["lineup"][0]["kind"] == "BestBatch":
        cfg["lineup"][0] = G.gen_sampler_desc(rng, "RandomUniform", batch_size=1)
    policy_log = []
    rl_verbose = desc["i"] % 3 == 1     # logging on (the default): the log lines must not consume anything from the exchange
    if rl_verbose:
        c["rl_runs_with_verbose_on"] = c.get("rl_runs_with_verbose_on", 0) + 1
    scripted = desc["i"] % 2 == 0
    n_supplied = len(cfg["lineup"])
    sessions = [int(x) for x in rng.integers(1, 4, size=int(rng.integers(1, 4)))]
    if rng.random() < 0.25:
        sessions.insert(int(rng.integers(0, len(sessions) + 1)), 0)     # calibrate(0): a session without any batch
        c["rl_sessions_without_batches"] = c.get("rl_sessions_without_batches", 0) + 1
    # without a supplied Halton the scheduler appends one: the natural number of actions is then len(scheduler.samplers) = n + 1
    n_actions = n_supplied + (1 if (not seenh and rng.random() < 0.5) else 0)
    if n_actions > n_supplied:
        c["rl_agent_may_choose_the_appended_bootstrap"] = c.get("rl_agent_may_choose_the_appended_bootstrap", 0) + 1
    wit = {"lineup": [(d["kind"], d["batch_size"]) for d in cfg["lineup"]], "sessions": sessions, "agent": "scripted" if scripted else "egreedy", "n_actions": n_actions}
    script = [int(x) for x in rng.integers(0, n_actions, size=40)]

    import threading

    class Scripted(Agent):
        def __init__(self):
            super().__init__(random_state=0)
            self.i = 0

        def policy(self, s):
            a = script[self.i % len(script)]
            self.i += 1
            policy_log.append((threading.current_thread().name, a))
            return a

        def learn(self, *a):
            pass

    class LoggedEG(MABEpsilonGreedy):
        def policy(self, s):
            a = super().policy(s)
            policy_log.append((threading.current_thread().name, int(a)))
            return a

    with quiet():
        samplers = CG.build_samplers(cfg)
        from black_it.calibrator import Calibrator
        from black_it.schedulers.rl.envs.mab import MABCalibrationEnv
        from black_it.schedulers.rl.rl_scheduler import RLScheduler
        from vlib import lossgen as LG

        agent = Scripted() if scripted else LoggedEG(n_actions, alpha=0.3, eps=0.4, initial_values=0.0)
        sched = RLScheduler(samplers, agent=agent, env=MABCalibrationEnv(n_actions))
        exact_losses = desc["i"] % 3 == 0
        if exact_losses:
            # scripted losses (model output == loss exactly), including a perfect fit: loss 0.0 at some batch
            from black_it.loss_functions.minkowski import MinkowskiLoss
            from vlib import models as MM

            vals = [float(x) for x in np.round(rng.uniform(0.5, 3.0, size=40), 3)]
            vals[int(rng.integers(0, 4))] = 0.0
            from vlib.userloss import SentinelLoss

            if rng.random() < 0.3:
                vals[0] = float(rng.choice([SentinelLoss.INF, SentinelLoss.NAN]))     # the bootstrap batch yields inf / nan as loss: the agent still takes over at batch 2
                c["rl_runs_with_nonfinite_first_loss"] = c.get("rl_runs_with_nonfinite_first_loss", 0) + 1
            wit["scripted_losses_head"] = vals[:8]
            c["rl_runs_with_a_zero_loss"] = c.get("rl_runs_with_a_zero_loss", 0) + 1
            cal = Calibrator(loss_function=SentinelLoss(p=1), real_data=np.zeros((1, 1)), model=MM.Scripted(vals),
                             parameters_bounds=np.array(cfg["space"]["bounds"]), parameters_precision=np.array(cfg["space"]["precision"]),
                             ensemble_size=1, scheduler=sched, verbose=rl_verbose, random_state=cfg["seed"], n_jobs=1)
        else:
            cal = Calibrator(loss_function=LG.build_loss(cfg["loss"]), real_data=CG.real_data(cfg), model=CG.model_for(cfg),
                             parameters_bounds=np.array(cfg["space"]["bounds"]), parameters_precision=np.array(cfg["space"]["precision"]),
                             ensemble_size=1, scheduler=sched, verbose=rl_verbose, random_state=cfg["seed"], n_jobs=1)
    supplied_ids = {id(s) for s in samplers}
    halton_supplied = [s for s in samplers if isinstance(s, HaltonSampler)]
    first_ever = True
    for si, m in enumerate(sessions):
        p0 = len(policy_log)
        from vlib.yieldinj import YieldInjector

        with CM.RunMonitor(cal, snapshots=False) as mon, YieldInjector(int(rng.integers(2**31))) as inj:
            try:
                with quiet(), G.time_limit(90):
                    cal.calibrate(m)
            except G.Timeout:
                from vlib import hang

                what, can = hang.agent_state(sched)
                hang.release(sched)
                if not can:
                    out["violations"].append({"msg": f"session {si}: calibrate({m}) did not return within 90 s; {what}, so the calibration waits for an action nobody will send "
                                                     "(the exchange with the agent stalled)", "witness": wit})
                else:
                    out["inconclusive"] = "RL calibrate() did not return within the time limit"
                return
            except Exception as e:  # noqa: BLE001
                out["violations"].append({"msg": f"RL run raised {type(e).__name__}: {str(e)[:160]}", "witness": wit})
                return
        c["rl_sessions"] = c.get("rl_sessions", 0) + 1
        c["rl_line_events_with_yield_injection"] = c.get("rl_line_events_with_yield_injection", 0) + inj.events
        pol = [a for _, a in policy_log[p0:]]
        k = 0
        for (bidx, smp, pos, cname, ret) in mon.batches():
            c["rl_batches"] = c.get("rl_batches", 0) + 1
            if id(smp) not in supplied_ids and not (isinstance(smp, HaltonSampler) and not halton_supplied):
                out["violations"].append({"msg": f"session {si}: sampler {cname} at position {pos} is neither supplied nor the bootstrap", "witness": wit})
            if first_ever:
                first_ever = False
                ok = isinstance(smp, HaltonSampler) and (not halton_supplied or smp is halton_supplied[0])
                if not ok:
                    out["violations"].append({"msg": f"the first batch was produced by {cname} (position {pos}), not by the bootstrap Halton sampler"
                                                     + (" that was supplied" if halton_supplied else ""), "witness": wit})
                continue
            if k >= len(pol):
                out["violations"].append({"msg": f"session {si}: a batch ran ({cname}) but the agent had made only {len(pol)} choices", "witness": dict(wit, policy=pol)})
                break
            a = pol[k]
            k += 1
            if pos != a or sched.samplers[a] is not smp:
                out["violations"].append({"msg": f"session {si}: the agent's choice number {k} in this session was {a} but the sampler at position {pos} ({cname}) ran", "witness": dict(wit, policy=pol)})
                break
    out["evals"] += 1
    if len(sessions) >= 2:
        out["nontrivial"].append(jhash(wit))
    if desc["i"] < 2:
        out["sample"] = dict(wit, policy_results=[a for _, a in policy_log], method_samp=cal.method_samp)


def run_switch(desc, ctx, out):
    """A calibration that starts round-robin and is handed an RL scheduler in mid-run: the RL scheduler's own first batch is the bootstrap."""
    import threading

    from black_it.samplers.halton import HaltonSampler
    from black_it.schedulers.rl.agents.base import Agent
    from black_it.schedulers.rl.envs.mab import MABCalibrationEnv
    from black_it.schedulers.rl.rl_scheduler import RLScheduler

    rng = rng_for(desc["seed"], 9, 2, desc["i"])
    c = out["counters"]
    cfg = CG.gen_config(rng, kinds=["RandomUniform", "RSequence", "Halton"], n_samplers=int(rng.integers(1, 4)), max_bs=2, loss_kinds=["minkowski"], max_params=2,
                        ensemble=1, scheduler="list")
    k0 = int(rng.integers(1, 4))
    with quiet():
        cal = CG.build_calibrator(cfg)
        cal.calibrate(k0)
    newl = [G.gen_sampler_desc(rng, kk, batch_size=int(rng.integers(1, 3))) for kk in rng.choice(["RandomUniform", "RSequence", "ParticleSwarm"], size=int(rng.integers(1, 4)))]
    samplers = [G.build_sampler(d) for d in newl]
    n_act = len(samplers) + 1
    script = [int(x) for x in rng.integers(0, n_act, size=30)]
    plog = []

    class Scripted(Agent):
        def __init__(self):
            super().__init__(random_state=0)
            self.i = 0

        def policy(self, s):
            a = script[self.i % len(script)]
            self.i += 1
            plog.append(a)
            return a

        def learn(self, *a):
            pass

    sched = RLScheduler(samplers, agent=Scripted(), env=MABCalibrationEnv(n_act))
    wit = {"first_lineup": [d["kind"] for d in cfg["lineup"]], "batches_before_the_switch": k0, "rl_lineup": [d["kind"] for d in newl], "script": script[:8]}
    m = int(rng.integers(2, 5))
    try:
        with quiet():
            cal.set_scheduler(sched)
        with CM.RunMonitor(cal, snapshots=False) as mon, quiet(), G.time_limit(120):
            cal.calibrate(m)
    except G.Timeout:
        out["violations"].append({"msg": "after set_scheduler(RLScheduler) in mid-run calibrate() did not return within 120 s (the exchange with the agent stalled)", "witness": wit})
        try:
            sched._stopped = True
            sched._out_queue.put(None)
        except Exception:  # noqa: BLE001
            pass
        return
    except Exception as e:  # noqa: BLE001
        out["violations"].append({"msg": f"after set_scheduler(RLScheduler) in mid-run calibrate() raised {type(e).__name__}: {str(e)[:140]}", "witness": wit})
        return
    c["rr_to_rl_switches"] = c.get("rr_to_rl_switches", 0) + 1
    out["evals"] += 1
    out["nontrivial"].append(jhash(wit))
    bs = mon.batches()
    if len(bs) != m:
        out["violations"].append({"msg": f"{len(bs)} batches ran for calibrate({m}) after the switch", "witness": wit})
        return
    first = bs[0]
    if not (isinstance(first[1], HaltonSampler) and first[1] is sched.samplers[sched._halton_sampler_id]):
        out["violations"].append({"msg": f"the RL scheduler's first batch after the switch was produced by {first[3]} (position {first[2]}), not by its bootstrap Halton sampler", "witness": wit})
    for j, b in enumerate(bs[1:]):
        if j >= len(plog) or b[2] != plog[j] or sched.samplers[plog[j]] is not b[1]:
            out["violations"].append({"msg": f"after the switch, RL batch {j + 1} was produced by position {b[2]} ({b[3]}); the agent's choice number {j + 1} was {plog[j] if j < len(plog) else None}", "witness": dict(wit, policy=plog)})
            break


def run_ctor(desc, ctx, out):
    from black_it.calibrator import Calibrator
    from black_it.loss_functions.minkowski import MinkowskiLoss
    from black_it.samplers.halton import HaltonSampler
    from black_it.samplers.random_uniform import RandomUniformSampler
    from black_it.schedulers.round_robin import RoundRobinScheduler
    from vlib import models as M

    c = out["counters"]

    def make(samplers, scheduler):
        with quiet():
            return Calibrator(loss_function=MinkowskiLoss(), real_data=np.zeros((12, 1)), model=M.witness_d1, parameters_bounds=[[0.0], [1.0]],
                              parameters_precision=[0.01], ensemble_size=1, samplers=samplers, scheduler=scheduler, verbose=False, random_state=1, n_jobs=1)

    for has_s, has_c in itertools.product((False, True), repeat=2):
        s = [RandomUniformSampler(1), HaltonSampler(2)] if has_s else None
        sc = RoundRobinScheduler([HaltonSampler(1)]) if has_c else None
        c["ctor_combinations"] = c.get("ctor_combinations", 0) + 1
        out["evals"] += 1
        wit = {"samplers_given": has_s, "scheduler_given": has_c}
        try:
            cal = make(s, sc)
            err = None
        except Exception as e:  # noqa: BLE001
            cal, err = None, e
        if has_s != has_c:
            if err is not None:
                out["violations"].append({"msg": f"exactly one of samplers/scheduler given but the constructor raised {type(err).__name__}: {err}", "witness": wit})
            else:
                used = cal.scheduler.samplers
                want = s if has_s else sc.samplers
                if [type(x) for x in used] != [type(x) for x in want] or (has_c and cal.scheduler is not sc):
                    out["violations"].append({"msg": "the constructed calibrator does not schedule what was supplied", "witness": wit})
                with quiet():
                    cal.calibrate(2)
        else:
            if not isinstance(err, ValueError):
                got = "no exception" if err is None else f"{type(err).__name__}: {err}"
                out["violations"].append({"msg": f"samplers {'and' if has_s else 'nor'} scheduler given: expected ValueError, got {got}", "witness": wit})
    # the sampler list handed over POSITIONALLY (7th argument), as older scripts do
    c["ctor_combinations"] = c.get("ctor_combinations", 0) + 1
    out["evals"] += 1
    try:
        pos_s = [RandomUniformSampler(1), HaltonSampler(2)]
        with quiet():
            cal_p = Calibrator(MinkowskiLoss(), np.zeros((12, 1)), M.witness_d1, [[0.0], [1.0]], [0.01], 1, pos_s, verbose=False, random_state=1, n_jobs=1)
            cal_p.calibrate(2)
        if [type(x) for x in cal_p.scheduler.samplers] != [RandomUniformSampler, HaltonSampler]:
            out["violations"].append({"msg": "a sampler list given as the 7th positional argument is not what the calibrator schedules", "witness": {"case": "positional samplers"}})
    except Exception as e:  # noqa: BLE001
        out["violations"].append({"msg": f"Calibrator(loss, data, model, bounds, precisions, ensemble, samplers) with positional samplers raised {type(e).__name__}: {str(e)[:120]}", "witness": {"case": "positional samplers"}})
    # both given in less obvious ways: an empty sequence counts as given; the same objects in both arguments are still "both"
    shared = [RandomUniformSampler(1), HaltonSampler(2)]
    for label, s_arg, sc_arg in (("empty list and a scheduler", [], RoundRobinScheduler([HaltonSampler(1)])),
                                 ("empty tuple and a scheduler", (), RoundRobinScheduler([HaltonSampler(1)])),
                                 ("a list and a scheduler built on the very same sampler objects", shared, RoundRobinScheduler(shared))):
        c["ctor_combinations"] = c.get("ctor_combinations", 0) + 1
        out["evals"] += 1
        try:
            make(s_arg, sc_arg)
            err = None
        except Exception as e:  # noqa: BLE001
            err = e
        if not isinstance(err, ValueError):
            got = "no exception" if err is None else f"{type(err).__name__}: {err}"
            out["violations"].append({"msg": f"samplers and scheduler both given ({label}): expected ValueError, got {got}", "witness": {"case": label}})
    out["nontrivial"].append(f"ctor{desc['i']}")


def run_case(desc, ctx):
    out = {"violations": [], "counters": {}, "evals": 0, "nontrivial": []}
    {"rr": run_rr, "rl": run_rl, "ctor": run_ctor, "switch": run_switch}[desc["kind"]](desc, ctx, out)
    return out
