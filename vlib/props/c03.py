"""C03 - every proposal lies on the declared grid (contract on sample() of all nine samplers, driven directly)."""
from __future__ import annotations

import numpy as np

from vlib import gen as G
from vlib.core import jhash, quiet, rng_for

ID = "C03"
LEVEL = "exploration"
RULE = (
    "case = (sampler class with generated options, generated search space of 1-6 parameters: dyadic / decimal / "
    "non-dividing / far-offset / tiny / huge axes, 15% with all axes of equal length but different values, 4% with one axis "
    "of more than a million points; for BestBatch also histories shorter than the batch (refusal or a full batch); on-grid history of 1-60 points with random, tied, all-equal or "
    "wide-range finite losses, seed) followed by 1-8 successive sample() calls on the same object with outputs fed back "
    "into the history. Oracle: shape == (batch_size, dims) and every coordinate == some element of its axis grid. "
    "Non-trivial = the space has an axis whose grid is not exactly lower+k*precision ending on the upper bound; distinct "
    "by (sampler descriptor, space descriptor, history hash)."
    ' One space in ten has 2-4 parameters far from the origin whose equal-length grids are shifted by a fraction of a step; every second re-use of a sampler object on a second space changes the dimension (down to one parameter, or up), and a history-free sampler refusing a space is a violation.'
)
ASSUMPTIONS = [
    "an exception or a >90 s stall inside a third-party estimator/optimizer on a generated history is 'no batch' (counted rejected), not a violation",
    "CORS is not given all-zero losses (its normalisation divides by max|loss|)",
]
REQUIRED_COUNTERS = {f"batches_{k}": 20 for k in G.SAMPLER_KINDS}
REQUIRED_COUNTERS.update({"spaces_with_integer_typed_bounds": 30, "swarm_restarts_on_empty_history": 3, "cors_runs_beyond_max_samples": 1, "spaces_with_equal_length_axes": 20, "spaces_with_a_million_point_axis": 5, "bestbatch_history_shorter_than_batch": 1, "nonaligned_spaces": 50, "multi_call_objects": 50, "second_space_calls": 60, "spaces_with_nearly_equal_axes_far_from_the_origin": 30, "second_space_of_another_dimension": 40})
SHARDS = {"quick": 16, "thorough": 16}
SHARD_WATCHDOG = {"quick": 1500, "thorough": 10800}


def gen_cases(tier, seed):
    per = 24 if tier == "quick" else 900
    return [{"kind": k, "i": i, "seed": seed} for i in range(per) for k in G.SAMPLER_KINDS]


def run_case(desc, ctx):
    kind = desc["kind"]
    rng = rng_for(desc["seed"], 3, G.SAMPLER_KINDS.index(kind), desc["i"])
    out = {"violations": [], "counters": {}, "evals": 0, "nontrivial": []}
    c = out["counters"]
    slow = kind in ("CORS", "GaussianProcess")
    for rep in range(2 if slow else 4):
        sd = G.gen_space(rng, dims=int(rng.integers(1, 4)) if slow else None, giant_ok=not slow)
        if rng.random() < 0.12:
            sd = G.gen_int_bounds_space(rng, int(rng.integers(1, 4)))
            c["spaces_with_integer_typed_bounds"] = c.get("spaces_with_integer_typed_bounds", 0) + 1
        if rng.random() < 0.1:
            # parameters far from the origin whose grids have the same length and differ by a fraction of a step (time stamps, levels):
            # nearly equal grids are still different grids
            d_ = int(rng.integers(2, 4)) if slow else int(rng.integers(2, 5))
            p_ = float(rng.choice([0.01, 0.7, 60.0, 1.0, 0.125]))
            n_ = int(rng.integers(3, 60))
            lo0 = p_ * float(rng.choice([1e5, 1e6, 1e7, -1e6, 2.5e6])) * float(rng.integers(1, 40))
            shifts = [0.0] + [float(rng.choice([0.5, 0.35, 0.25, -0.4, 0.5])) * p_ for _ in range(d_ - 1)]
            sd = {"bounds": [[lo0 + sh for sh in shifts], [lo0 + sh + n_ * p_ for sh in shifts]], "precision": [p_] * d_}
            c["spaces_with_nearly_equal_axes_far_from_the_origin"] = c.get("spaces_with_nearly_equal_axes_far_from_the_origin", 0) + 1
        space = G.build_space(sd)
        smp = G.gen_sampler_desc(rng, kind)
        if "pool" in smp and rng.random() < 0.1:
            smp["pool"] = smp["batch_size"]     # the smallest admissible pool: every candidate is returned
            c["pool_equal_to_batch_size"] = c.get("pool_equal_to_batch_size", 0) + 1
        if kind == "CORS" and rng.random() < 0.3:
            smp["max_samples"] = 20             # the run asks for more points than max_samples: still grid points
        bs = smp["batch_size"]
        nh = int(rng.integers(max(bs, 2), 25 if slow else 61))
        if kind in G.HISTORY_FREE and rng.random() < 0.3:
            nh = 0
        if kind == "BestBatch" and bs >= 2 and rng.random() < 0.15:
            nh = int(rng.integers(1, bs))   # history shorter than the batch: refusing is fine, a short batch is not
            c["bestbatch_history_shorter_than_batch"] = c.get("bestbatch_history_shorter_than_batch", 0) + 1
        if max(len(g) for g in space.param_grid) > 1_000_000:
            c["spaces_with_a_million_point_axis"] = c.get("spaces_with_a_million_point_axis", 0) + 1
        if space.dims >= 2 and len({len(g) for g in space.param_grid}) == 1 and len({tuple(g[:2]) for g in space.param_grid}) > 1:
            c["spaces_with_equal_length_axes"] = c.get("spaces_with_equal_length_axes", 0) + 1
        pts, losses, lk = G.gen_history(rng, space, nh, "random" if kind == "CORS" and rng.random() < 0.5 else None)
        if kind == "CORS" and not np.any(losses):
            losses = losses + 1.0
        ncalls = int(rng.integers(1, 4 if slow else 9))
        if kind == "CORS" and smp.get("max_samples") == 20 and rep == 0:
            ncalls = int(rng.integers(6, 10))
            c["cors_runs_beyond_max_samples"] = c.get("cors_runs_beyond_max_samples", 0) + 1
        restart_at = int(rng.integers(1, ncalls)) if (kind == "ParticleSwarm" and ncalls >= 2 and rng.random() < 0.25) else None
        wit = {"sampler": smp, "space": sd, "n_history": nh, "loss_kind": lk, "calls": ncalls}
        nonal = G.space_is_nonaligned(space)
        if nonal:
            c["nonaligned_spaces"] = c.get("nonaligned_spaces", 0) + 1
        try:
            with quiet():
                sampler = G.build_sampler(smp)
        except Exception as e:  # noqa: BLE001
            out["violations"].append({"msg": f"{kind}: constructor rejected admissible options: {type(e).__name__}: {e}", "witness": wit})
            continue
        done = 0
        for call in range(ncalls):
            if restart_at == call:
                # the object is used again from scratch (a first batch that failed, a new calibration): an EMPTY history after earlier calls
                pts, losses = np.zeros((0, space.dims)), np.zeros(0)
                c["swarm_restarts_on_empty_history"] = c.get("swarm_restarts_on_empty_history", 0) + 1
            try:
                with quiet(), G.time_limit(G.LIMIT):
                    batch = sampler.sample(space, pts, losses)
            except G.Timeout:
                c[f"rejected_timeout_{kind}"] = c.get(f"rejected_timeout_{kind}", 0) + 1
                break
            except Exception as e:  # noqa: BLE001
                c[f"rejected_{kind}"] = c.get(f"rejected_{kind}", 0) + 1
                c.setdefault("rejected_examples", 0)
                if "rejected_note" not in out:
                    out["rejected_note"] = f"{kind}: {type(e).__name__}: {str(e)[:120]}"
                break
            batch = np.asarray(batch)
            c[f"batches_{kind}"] = c.get(f"batches_{kind}", 0) + 1
            out["evals"] += 1
            done += 1
            if batch.shape != (bs, space.dims):
                out["violations"].append({"msg": f"{kind}: batch shape {batch.shape}, expected {(bs, space.dims)} (call {call})", "witness": wit})
                break
            ok = G.on_grid(space, batch)
            if not ok.all():
                r, j = (int(x) for x in np.argwhere(~ok)[0])
                g = space.param_grid[j]
                near = g[np.argmin(np.abs(g - batch[r, j]))]
                out["violations"].append({
                    "msg": f"{kind}: coordinate {j} of row {r} is {batch[r, j]!r}, not an element of its grid (nearest {near!r}; "
                           f"bounds [{sd['bounds'][0][j]!r}, {sd['bounds'][1][j]!r}] step {sd['precision'][j]!r}) at call {call}",
                    "witness": dict(wit, batch=batch)})
                break
            # independent of the library's own grid: inside the declared bounds (up to the documented 1e-7 end-point tolerance)
            # and on lower + k * precision
            lo_b, up_b, pr_b = (np.asarray(x, dtype=float) for x in (sd["bounds"][0], sd["bounds"][1], sd["precision"]))
            mag = np.maximum(np.abs(lo_b), np.abs(up_b) + 1e-7)
            kk = np.round((batch - lo_b) / pr_b)
            slack = 4 * (np.abs(kk) + 2) * np.spacing(mag)
            outside = (batch < lo_b - slack) | (batch > up_b + 1e-7 + slack)
            off = np.abs(batch - (lo_b + kk * pr_b)) > slack
            c["independent_bounds_checks"] = c.get("independent_bounds_checks", 0) + int(batch.size)
            if outside.any() or off.any():
                r, j = (int(x) for x in np.argwhere(outside | off)[0])
                what = "lies outside the declared bounds" if outside[r, j] else "is not lower + k*precision"
                out["violations"].append({
                    "msg": f"{kind}: coordinate {j} of row {r} is {batch[r, j]!r}, which {what} [{sd['bounds'][0][j]!r}, {sd['bounds'][1][j]!r}] step "
                           f"{sd['precision'][j]!r} (1e-7 end-point tolerance allowed) at call {call}", "witness": dict(wit, batch=batch)})
                break
            new_losses = rng.random(bs) + 0.01 if lk != "ties" else rng.integers(1, 4, size=bs).astype(float)
            pts = np.vstack([pts, batch])
            losses = np.hstack([losses, new_losses])
        if done >= 2:
            c["multi_call_objects"] = c.get("multi_call_objects", 0) + 1
        # the same sampler object is then used on ANOTHER space of the same dimension (a second calibration re-using the
        # user's sampler objects): every batch must lie on the grid of the space it is asked for
        if done and rep % 2 == 0 and not out["violations"]:
            dims2 = space.dims
            if rng.random() < 0.5 and kind != "ParticleSwarm":     # (a swarm keeps positions of its first space: another dimension is a new swarm)
                # ... or of another dimension: fewer parameters (down to one) or more
                dims2 = int(rng.choice([d_ for d_ in (1, 1, 2, 3, space.dims + 1, space.dims + 3) if d_ != space.dims]))
                c["second_space_of_another_dimension"] = c.get("second_space_of_another_dimension", 0) + 1
            sd2 = G.gen_space(rng, dims=dims2)
            space2 = G.build_space(sd2)
            pts2, losses2, lk2 = G.gen_history(rng, space2, int(rng.integers(max(bs, 2), 20)), "random")
            try:
                with quiet(), G.time_limit(G.LIMIT):
                    b2 = np.asarray(sampler.sample(space2, pts2, losses2))
                c["second_space_calls"] = c.get("second_space_calls", 0) + 1
                out["evals"] += 1
                ok2 = b2.shape == (bs, space2.dims) and bool(G.on_grid(space2, b2).all())
                if not ok2:
                    out["violations"].append({"msg": f"{kind}: after being used on one space the same sampler object, asked for a batch on another space "
                                                     f"(bounds {sd2['bounds']}), returned {b2[:2].tolist()} - shape {b2.shape}, not on that space's grid",
                                              "witness": dict(wit, second_space=sd2, batch=b2)})
            except G.Timeout:
                pass
            except Exception as e:  # noqa: BLE001
                if kind in G.HISTORY_FREE:
                    # a sampler that never looks at the history has no reason to refuse a space
                    out["violations"].append({"msg": f"{kind}: after being used on a space of {space.dims} parameter(s) the same object refuses a space of {dims2}: "
                                                     f"{type(e).__name__}: {str(e)[:140]}", "witness": dict(wit, second_space=sd2)})
                c[f"rejected_{kind}"] = c.get(f"rejected_{kind}", 0) + 1
        if nonal and done:
            out["nontrivial"].append(jhash([smp, sd, nh, lk]))
        if "sample" not in out and desc["i"] == 0 and done:
            out["sample"] = {"sampler": smp, "space": sd, "n_history": nh, "calls_done": done, "last_batch": batch}
    return out
