"""C20 - HP filter (residual of the optimality condition), derived filters, finite moment summary."""
from __future__ import annotations

import numpy as np

from vlib.core import quiet, rng_for

ID = "C20"
LEVEL = "exploration"
RULE = (
    "case = block of series: length 3-2000 (moments 8-2000), lambda log-uniform in [1e-3,1e7] and 1600, shapes constant / "
    "linear / alternating / random walk / white noise / positive log-normal / two-valued, scales 1e-6..1e6, plus identically zero "
    "series, series of ones and series with neighbouring values 1e-200 / 1e200 for the log filters, and for the moment summary "
    "series scaled to 1e155..1e307, to 1e-307..1e-160 and integer-typed ones; every third series is filtered again with another "
    "lambda and then with the first one. Oracles: the array passed in is unchanged (hp_filter, the three derived filters and the moment summary; 40% of the inputs "
    "to the latter two are write-protected) and a second summary of the same array equals the first; "
    "cycle+trend==series (4 ulps of scale); backward error ||(I+lam K'K) trend - y||inf <= 1e-11 (1+16 lam) ||y||inf with the "
    "monitor's own second-difference operator; wrappers equal their definitions computed from the monitor's own banded "
    "solve (1e-8 of scale); diff_log_demean has input length and |mean| <= 1e-12 scale; 18 finite moments. "
    "Non-trivial = length >= 10 and non-polynomial shape; distinct by (shape, n, lambda, seed)."
    ' Shapes include +-a random walks and large levels with small movements; every second series is followed by a filter call on another series of the same length, after which the first (cycle, trend) must be unchanged.'
)
ASSUMPTIONS = [
    "the forward error of a solve at lambda up to 1e7 is conditioning, so the optimality residual is the verdict for general lambda",
    "series for the log filters are strictly positive",
]
REQUIRED_COUNTERS = {"earlier_results_rechecked_after_a_later_call": 200, "readonly_inputs_to_moment_summary": 100, "readonly_inputs_to_derived_filters": 100, "same_series_other_lambda": 100, "zero_series": 5, "log_filter_on_ones": 20, "log_filter_on_wild_ratios": 20, "moment_series_above_1e154": 40, "moment_series_integer_typed": 40, "hp_cases": 200, "wrapper_cases": 100, "moment_cases": 200, "constant_series": 20}
SHARDS = {"quick": 8, "thorough": 16}

SHAPES = ["constant", "linear", "alternating", "walk", "noise", "lognormal", "twovalued", "quadratic", "pm1walk", "level"]


def gen_cases(tier, seed):
    n = 128 if tier == "quick" else 30000
    return [{"i": i, "seed": seed} for i in range(n)]


def make_series(shape, n, rng, positive=False):
    scale = 10.0 ** rng.integers(-6, 7)
    if positive and rng.random() < 0.3:
        scale = 10.0 ** rng.integers(-300, -12)   # strictly positive but far below machine epsilon: the logarithm is still well defined
    t = np.arange(n, dtype=float)
    if shape == "constant":
        y = np.full(n, float(rng.normal()))
    elif shape == "linear":
        y = rng.normal() + rng.normal() * t / n
    elif shape == "quadratic":
        y = rng.normal() + rng.normal() * (t / n) ** 2
    elif shape == "alternating":
        y = (-1.0) ** t * rng.normal() + rng.normal()
    elif shape == "walk":
        y = np.cumsum(rng.normal(size=n))
    elif shape == "pm1walk":      # a +-a random walk: the series varies, its absolute first differences do not
        y = np.cumsum(rng.choice([-1.0, 1.0], size=n)) * float(rng.choice([1.0, 0.5, 3.0]))
    elif shape == "level":        # a large level with small movements around it (GDP levels, populations)
        y = 10.0 ** rng.uniform(2, 7) + rng.normal(size=n)
    elif shape == "noise":
        y = rng.normal(size=n)
    elif shape == "lognormal":
        y = np.exp(rng.normal(size=n) * rng.uniform(0.1, 2))
    else:
        y = rng.choice([float(rng.normal()), float(rng.normal())], size=n)
    y = y * scale
    if positive:
        y = np.abs(y) + scale * 10.0 ** rng.uniform(-3, 0)
    return y


def second_diff_apply(tr):
    """K'K tr computed with explicit second differences (no sparse matrices)."""
    d2 = tr[:-2] - 2 * tr[1:-1] + tr[2:]
    out = np.zeros_like(tr)
    out[:-2] += d2
    out[1:-1] += -2 * d2
    out[2:] += d2
    return out


def ref_hp_trend(y, lam):
    """Independent solve: pentadiagonal system via scipy banded Cholesky."""
    from scipy.linalg import solveh_banded

    n = len(y)
    # diagonals of K'K
    d0 = np.full(n, 6.0)
    d0[[0, -1]] = 1.0
    if n > 3:
        d0[[1, -2]] = 5.0
    else:  # n == 3: K is 1 x 3 -> K'K = outer([1,-2,1])
        d0 = np.array([1.0, 4.0, 1.0])
    d1 = np.full(n - 1, -4.0)
    d1[[0, -1]] = -2.0
    d2 = np.ones(n - 2)
    ab = np.zeros((3, n))
    ab[0] = 1 + lam * d0
    ab[1, : n - 1] = lam * d1
    ab[2, : n - 2] = lam * d2
    return solveh_banded(ab, y, lower=True)


def run_case(desc, ctx):
    from black_it.utils import time_series as ts

    rng = rng_for(desc["seed"], 20, desc["i"])
    out = {"violations": [], "counters": {}, "evals": 0, "nontrivial": []}
    c = out["counters"]

    def bad(msg, w):
        out["violations"].append({"msg": msg, "witness": w})

    for rep in range(10):
        shape = SHAPES[int(rng.integers(len(SHAPES)))]
        n = int(rng.choice([3, 4, 5, 8, 10, int(rng.integers(3, 200)), int(rng.integers(200, 2001))]))
        lam = float(rng.choice([1600.0, 10.0 ** rng.uniform(-3, 7)]))
        y = make_series(shape, n, rng)
        form = str(rng.choice(["plain", "plain", "readonly", "strided", "int"]))
        if form == "readonly":
            y.setflags(write=False)
        elif form == "strided":
            buf = np.zeros(2 * n)
            buf[::2] = y
            y = buf[::2]
        elif form == "int":
            y = np.round(y / (float(np.max(np.abs(y))) or 1.0) * 1000).astype(np.int64)
        c[f"series_{form}"] = c.get(f"series_{form}", 0) + 1
        if shape == "constant" and rng.random() < 0.3:
            y = y * 0                       # identically zero (also what the log filters see for a series of ones)
            c["zero_series"] = c.get("zero_series", 0) + 1
        y_before = np.array(y, copy=True)
        sc = float(np.max(np.abs(y))) or 1.0
        w = {"shape": shape, "n": n, "lambda": lam, "series_head": y[:5], "scale": sc}
        # ---------------- hp_filter
        try:
            with quiet():
                cycle, trend = ts.hp_filter(y, lam)
            cycle, trend = np.asarray(cycle), np.asarray(trend)
        except Exception as e:  # noqa: BLE001
            bad(f"hp_filter raised {type(e).__name__}: {e}", w)
            continue
        c["hp_cases"] = c.get("hp_cases", 0) + 1
        out["evals"] += 1
        if form in ("plain", "strided") and not np.array_equal(y, y_before):
            bad("hp_filter changed the array it was given (the caller's series now differs from what was passed)", w)
        first_cycle, first_trend = np.array(cycle, copy=True), np.array(trend, copy=True)
        if rep % 2 == 1:
            # another series of the SAME length is filtered while the first result is still in use: what was returned stays what it was
            try:
                with quiet():
                    ts.hp_filter(make_series(SHAPES[int(rng.integers(len(SHAPES)))], n, rng), float(lam * rng.choice([1.0, 0.1, 10.0])))
                c["earlier_results_rechecked_after_a_later_call"] = c.get("earlier_results_rechecked_after_a_later_call", 0) + 1
                if not (np.array_equal(cycle, first_cycle) and np.array_equal(trend, first_trend)):
                    bad("the cycle / trend returned by one hp_filter call changed when another series of the same length was filtered afterwards", w)
            except Exception as e:  # noqa: BLE001
                bad(f"hp_filter raised {type(e).__name__}: {e}", w)
        if rep % 3 == 0:
            # the same series again with another lambda (and back): every call is decided by its own lambda
            lam_b = float(lam * rng.choice([0.01, 100.0]))
            try:
                with quiet():
                    _cb, tb = ts.hp_filter(y, lam_b)
                    _ca, ta = ts.hp_filter(y, lam)
                c["same_series_other_lambda"] = c.get("same_series_other_lambda", 0) + 1
                if not (np.array_equal(cycle, first_cycle) and np.array_equal(trend, first_trend)):
                    bad("the cycle / trend returned by the first hp_filter call changed when the same series was filtered again", w)
                rb = np.max(np.abs(np.asarray(tb) + lam_b * second_diff_apply(np.asarray(tb, dtype=float)) - y))
                if not rb <= 1e-11 * (1 + 16 * lam_b) * sc:
                    bad(f"second call on the same series with lambda {lam_b!r} (after lambda {lam!r}): optimality residual {rb!r}", dict(w, second_lambda=lam_b))
                if not np.max(np.abs(np.asarray(ta) - trend)) <= 1e-9 * sc:
                    bad(f"third call, again with lambda {lam!r}, returns another trend than the first call", dict(w, second_lambda=lam_b))
            except Exception as e:  # noqa: BLE001
                bad(f"repeated hp_filter raised {type(e).__name__}: {e}", w)
        if shape == "constant":
            c["constant_series"] = c.get("constant_series", 0) + 1
        if cycle.shape != y.shape or trend.shape != y.shape:
            bad(f"hp_filter shapes {cycle.shape}, {trend.shape} != {y.shape}", w)
            continue
        if not np.all(np.abs(cycle + trend - y) <= 4 * np.spacing(sc)):
            bad(f"cycle + trend != series (max dev {np.max(np.abs(cycle + trend - y))!r})", w)
        resid = np.max(np.abs(trend + lam * second_diff_apply(trend) - y))
        if not resid <= 1e-11 * (1 + 16 * lam) * sc:
            bad(f"HP optimality residual {resid!r} > bound {1e-11 * (1 + 16 * lam) * sc!r}", w)
        if lam == 1600.0:
            ref = ref_hp_trend(y, lam)
            if not np.max(np.abs(trend - ref)) <= 1e-8 * sc:
                bad(f"trend differs from independent banded solve by {np.max(np.abs(trend - ref))!r}", w)
        if n >= 10 and shape not in ("constant", "linear", "quadratic"):
            out["nontrivial"].append(f"hp:{shape}:{n}:{lam!r}:{desc['i']}:{rep}")
        # ---------------- wrappers
        try:
            with quiet():
                cyc1600 = np.asarray(ts.hp_cycle_lamb1600_filter(y))
            refc = y - ref_hp_trend(y, 1600.0)
            if cyc1600.shape != y.shape or not np.max(np.abs(cyc1600 - refc)) <= 1e-8 * sc:
                bad("hp_cycle_lamb1600_filter != series - HP trend at lambda 1600", w)
            yp = make_series(shape, n, rng, positive=True)
            u = rng.random()
            if u < 0.08:
                yp = np.ones(n)                      # log == 0 everywhere
                c["log_filter_on_ones"] = c.get("log_filter_on_ones", 0) + 1
            elif u < 0.16:
                # neighbouring values whose ratio leaves the float range although both logs are ordinary numbers
                yp = 10.0 ** rng.choice([-200.0, 200.0, -150.0, 150.0, 0.0], size=n)
                c["log_filter_on_wild_ratios"] = c.get("log_filter_on_wild_ratios", 0) + 1
            wp = dict(w, positive_series_head=yp[:5])
            ly = np.log(yp)
            lsc = float(np.max(np.abs(ly))) or 1.0
            yp_before = yp.copy()
            if rng.random() < 0.4:
                yp.setflags(write=False)       # a filter only reads what it is given
                c["readonly_inputs_to_derived_filters"] = c.get("readonly_inputs_to_derived_filters", 0) + 1
            with quiet():
                lh = np.asarray(ts.log_and_hp_filter(yp))
                dl = np.asarray(ts.diff_log_demean_filter(yp))
            if not np.array_equal(yp, yp_before):
                bad("a log filter changed the series it was given", wp)
            ref_lh = ly - ref_hp_trend(ly, 1600.0)
            if lh.shape != yp.shape or not np.max(np.abs(lh - ref_lh)) <= 1e-8 * max(lsc, 1.0):
                bad("log_and_hp_filter != log(series) - HP trend of log(series) at lambda 1600", wp)
            d = np.concatenate([[0.0], ly[1:] - ly[:-1]])
            ref_dl = d - d.mean()
            if dl.shape != yp.shape:
                bad(f"diff_log_demean_filter length {dl.shape} != input {yp.shape}", wp)
            else:
                if not np.max(np.abs(dl - ref_dl)) <= 1e-9 * max(lsc, 1.0):
                    bad("diff_log_demean_filter != de-meaned first difference of the log", wp)
                if not abs(dl.mean()) <= 1e-12 * max(lsc, 1.0):
                    bad(f"diff_log_demean_filter mean {dl.mean()!r} is not zero", wp)
            c["wrapper_cases"] = c.get("wrapper_cases", 0) + 1
        except Exception as e:  # noqa: BLE001
            bad(f"derived filter raised {type(e).__name__}: {e}", w)
        # ---------------- moment summary
        nm = max(n, 8)
        ym = make_series(shape, nm, rng)
        u = rng.random()
        if u < 0.12:
            ym = ym / (float(np.max(np.abs(ym))) or 1.0) * 10.0 ** rng.uniform(155, 307)   # squares and sums leave the float range; the series itself is finite
            c["moment_series_above_1e154"] = c.get("moment_series_above_1e154", 0) + 1
        elif u < 0.24:
            ym = np.round(ym / (float(np.max(np.abs(ym))) or 1.0) * 50).astype(np.int64)
            c["moment_series_integer_typed"] = c.get("moment_series_integer_typed", 0) + 1
        elif u < 0.30:
            ym = ym / (float(np.max(np.abs(ym))) or 1.0) * 10.0 ** rng.uniform(-307, -160)
            c["moment_series_below_1e-160"] = c.get("moment_series_below_1e-160", 0) + 1
        ym_before = ym.copy()
        if rng.random() < 0.4:
            ym.setflags(write=False)
            c["readonly_inputs_to_moment_summary"] = c.get("readonly_inputs_to_moment_summary", 0) + 1
        try:
            with quiet():
                m = np.asarray(ts.get_mom_ts_1d(ym))
                m_again = np.asarray(ts.get_mom_ts_1d(ym))
            c["moment_cases"] = c.get("moment_cases", 0) + 1
            if not np.array_equal(ym, ym_before):
                bad("get_mom_ts_1d changed the series it was given", {"shape": shape, "n": nm, "series_head": ym_before[:5]})
            elif m.shape == (18,) and not np.array_equal(m, m_again, equal_nan=True):
                bad("two summaries of the same series differ", {"shape": shape, "n": nm, "series_head": ym_before[:5], "first": m, "second": m_again})
            if m.shape != (18,):
                bad(f"moment summary has shape {m.shape}, expected (18,)", {"shape": shape, "n": nm, "series_head": ym[:5]})
            elif not np.all(np.isfinite(m)):
                bad(f"moment summary not finite: {m}", {"shape": shape, "n": nm, "series_head": ym[:5]})
        except Exception as e:  # noqa: BLE001
            bad(f"get_mom_ts_1d raised {type(e).__name__}: {e}", {"shape": shape, "n": nm, "series_head": ym[:5]})
        if "sample" not in out and desc["i"] < 3:
            out["sample"] = {"shape": shape, "n": n, "lambda": lam, "residual": resid, "bound": 1e-11 * (1 + 16 * lam) * sc}
    return out
