"""C10 - the RL scheduler/agent exchange is correct under every thread interleaving.

Controlled mode: the real RLScheduler / CalibrationEnv / agent code runs on managed queues and threads (vlib.sched);
schedules are enumerated depth-first within a preemption bound, plus seeded random schedules.  Free-running mode: real
queue.Queue / threading.Thread with sys.monitoring LINE events on the RL modules injecting yields and short sleeps.
Both modes produce the same event log, judged by the same sequential specification.
"""
from __future__ import annotations

import itertools
import queue
import sys
import threading
import time

import numpy as np

from vlib import sched as SC
from vlib.core import Inconclusive, jhash, rng_for

ID = "C10"
LEVEL = "exploration"
RULE = (
    "case = (shape: 1-3 sessions of 1-3 batches, all 39 shapes, plus 5 shapes with sessions of 0 batches; loss sequence: improving / non-improving / mixed / reaching exactly 0.0; "
    "agent: constant, cyclic or reward-adaptive script, or the real MABEpsilonGreedy; 3 samplers + optional supplied Halton; in a "
    "fifth of the scheduler-API cases one batch fails after its sampler was designated, so the session ends through session()'s finally). "
    "Controlled mode enumerates every schedule of the calibration thread and the agent threads at the synchronisation points "
    "(before and after every queue put, queue get/empty/qsize, session-flag read/write, thread start/join/exit) with at most c preemptions (quick c=2, "
    "thorough c=3, c=4 for shapes of at most 4 batches) and adds seeded random schedules without bound; free-running mode repeats cases on real threads with "
    "LINE-level yield/sleep injection. Oracle on the event log: S1 consumed actions are an in-order prefix of the session's "
    "policy results with at most one left over; S2 learn exactly once per completed chosen batch, in order, with that action "
    "and the reference relative-improvement reward of that batch, never for an unexecuted action; S3 the sampler that ran is "
    "samplers[action]; S4 at end_session both queues empty and the agent thread finished; S5 no deadlock; S6 the projection "
    "(samplers run, learn calls, final state of the agent incl. its generator) is identical across all schedules of a case; S7 the "
    "epsilon-greedy agent (constant step or sample-average) ends with exactly the estimates and visit counts its learn() calls produce. Non-trivial = a schedule with >= 1 preemption in "
    "a run with >= 2 sessions; distinct by (case, choice list)."
)
ASSUMPTIONS = [
    "the shim owns queue put/get/empty/qsize, the session flag and thread start/join; a thread that blocks on anything else ends the run as inconclusive",
    "the calibration side is driven through the scheduler API exactly as Calibrator.calibrate() does (session(), get_next_sampler(), update()) in two thirds of the cases and by a real Calibrator.calibrate() (scripted losses) in one third",
    "non-negative losses; once the best loss is exactly 0.0 no later batch can improve it, so the reward rule never divides by zero",
]
REQUIRED_COUNTERS = {"s7_agent_state_vs_learn_log": 500, "cases_with_a_failing_batch": 2, "cases_via_real_calibrator": 8, "schedules": 2000, "preempted_multi_session": 500, "cases": 30, "free_runs": 60, "free_line_events": 5000}
SHARDS = {"quick": 16, "thorough": 16}
SHARD_WATCHDOG = {"quick": 1500, "thorough": 10800}

SHAPES = [s for n in (1, 2, 3) for s in itertools.product((1, 2, 3), repeat=n)]  # 39
SHAPES += [(0,), (0, 2), (1, 0), (0, 0), (2, 0, 1)]   # sessions without a batch (calibrate(0)), also as the very first one


def gen_cases(tier, seed):
    cases = []
    agents = ["cyclic", "adaptive", "egreedy", "constant"]
    losses = ["improving", "flat", "mixed", "hits_zero"]
    k = 0
    for sh in SHAPES:
        reps = 1 if tier == "quick" else 3
        for r in range(reps):
            cases.append({"mode": "controlled", "shape": list(sh), "agent": agents[(k + r) % 4], "loss": losses[(k // 2 + r) % 4],
                          "halton_supplied": bool((k + r) % 3 == 0), "seed": seed, "k": k * 3 + r,
                          # every third case: the calibration side is a real Calibrator.calibrate() (seeding, sampling, simulation, loss)
                          "via": "calibrator" if (k + r) % 3 == 1 else "scheduler_api"})
            if (k + r) % 3 != 1 and (k + r) % 5 == 2 and sum(sh) > 0:
                # one batch fails after its sampler was designated (model / loss error): the session is torn down through session()'s finally
                ss = [i for i, n in enumerate(sh) if n > 0]
                s_f = ss[(k + r) % len(ss)]
                cases[-1]["fail"] = [s_f, ((k + r) // 3) % sh[s_f]]
        k += 1
    nfree = 32 if tier == "quick" else 320
    for i in range(nfree):
        sh = SHAPES[(i * 7) % len(SHAPES)]
        cases.append({"mode": "free", "shape": list(sh), "agent": agents[i % 4], "loss": losses[i % 4], "halton_supplied": bool(i % 3 == 0),
                      "seed": seed, "k": 1000 + i})
    return cases


# --------------------------------------------------------------------------- the system under test, instrumented from outside
def loss_sequence(kind, n, rng):
    if kind == "improving":
        return list(np.round(10.0 * 0.8 ** np.arange(1, n + 1), 6))
    if kind == "flat":
        return [float(np.round(5.0 + rng.random(), 6)) for _ in range(n)] if n else []
    if kind == "hits_zero":  # a perfect fit somewhere: the best loss becomes exactly 0.0 and stays there
        seq = [float(np.round(10.0 ** rng.uniform(-1, 1), 6)) for _ in range(n)]
        if n:
            seq[int(rng.integers(0, n))] = 0.0
        return seq
    return [float(np.round(10.0 ** rng.uniform(-1, 1), 6)) for _ in range(n)]


def case_seed(desc):
    """Every case has its own random streams (agent, scheduler, calibrator): the draws that decide explore/exploit differ from case to case."""
    return (int(desc["seed"]) * 7919 + int(desc["k"]) * 104729 + 17) % (2**31 - 1)


def make_agent(kind, n_actions, seed, rec):
    from black_it.schedulers.rl.agents.base import Agent
    from black_it.schedulers.rl.agents.epsilon_greedy import MABEpsilonGreedy

    def who():
        return threading.current_thread().name

    if kind == "egreedy":
        class Logged(MABEpsilonGreedy):
            def policy(self, s):
                a = super().policy(s)
                rec("policy", who(), int(a))
                return a

            def learn(self, s, a, r, ns):
                rec("learn", who(), int(a), float(r))
                return super().learn(s, a, r, ns)

        # every second case in the sample-average setting (step 1/visits: a visit that was counted but not learnt from shows in Q)
        return Logged(n_actions, alpha=(-1 if seed % 2 else 0.5), eps=0.3, initial_values=0.0, random_state=seed)

    class Scripted(Agent):
        def __init__(self):
            super().__init__(random_state=seed)
            self.i = 0
            self.value = [0.0] * n_actions

        def policy(self, s):
            if kind == "constant":
                a = 1 % n_actions
            elif kind == "cyclic":
                a = [1, 2, 0, 2, 1, 1, 0][self.i % 7] % n_actions
            else:  # adaptive: best learned value, ties broken by a counter -> depends on every learn() being right
                best = max(self.value)
                cands = [k for k, v in enumerate(self.value) if v == best]
                a = cands[self.i % len(cands)]
            self.i += 1
            rec("policy", who(), int(a))
            return a

        def learn(self, s, a, r, ns):
            rec("learn", who(), int(a), float(r))
            self.value[a] += 0.5 * (float(r) - self.value[a]) + 0.01

    return Scripted()


def build_system(desc, rec, make_queue, patch_threading, flag_hook=None):
    """Real RLScheduler on instrumented primitives. Returns (scheduler, env, restore())."""
    import black_it.schedulers.rl.rl_scheduler as rlmod
    from black_it.samplers.best_batch import BestBatchSampler
    from black_it.samplers.halton import HaltonSampler
    from black_it.samplers.random_uniform import RandomUniformSampler
    from black_it.samplers.r_sequence import RSequenceSampler
    from black_it.schedulers.rl.envs.mab import MABCalibrationEnv
    from black_it.schedulers.rl.rl_scheduler import RLScheduler

    samplers = [RandomUniformSampler(1), BestBatchSampler(1), RSequenceSampler(1)]
    if desc["halton_supplied"]:
        samplers.insert(1, HaltonSampler(1))
    n = len(samplers)
    env = MABCalibrationEnv(n)
    env._out_queue = make_queue("act")   # agent -> calibration: chosen actions
    env._in_queue = make_queue("out")    # calibration -> agent: outcomes
    agent = make_agent(desc["agent"], n, case_seed(desc), rec)

    cls = RLScheduler
    if flag_hook is not None:
        class MonRL(RLScheduler):
            def _get(self):
                flag_hook("rd")
                return self.__dict__.get("_st", True)

            def _set(self, v):
                if "_st" in self.__dict__:
                    flag_hook("wr")
                self.__dict__["_st"] = v

            _stopped = property(_get, _set)

        cls = MonRL
    old = rlmod.threading
    rlmod.threading = patch_threading
    sched = cls(samplers, agent, env, random_state=case_seed(desc))

    def restore():
        rlmod.threading = old

    return sched, env, restore


def drive_calibrator(desc, sched, env, rec, losses, queues, alive_fn):
    """The calibration side is the real Calibrator: one calibrate(nb) per session, scripted losses (loss == |model output|)."""
    from black_it.calibrator import Calibrator
    from black_it.loss_functions.minkowski import MinkowskiLoss

    from vlib import models as MM
    from vlib.core import quiet

    vals = [float(x) for x in losses] + [1.0] * 8
    state = {"s": -1, "b": 0}
    orig_next, orig_update = sched.get_next_sampler, sched.update

    def next_sampler():
        smp = orig_next()
        idx = [i for i, x in enumerate(sched.samplers) if x is smp]
        rec("run", state["s"], state["b"], idx[0] if idx else None, type(smp).__name__)
        return smp

    def update(batch_id, new_params, new_losses, new_simulated_data):
        r = orig_update(batch_id, new_params, new_losses, new_simulated_data)
        rec("update", state["s"], state["b"], float(np.min(new_losses)))
        state["b"] += 1
        return r

    sched.get_next_sampler, sched.update = next_sampler, update
    with quiet():
        cal = Calibrator(loss_function=MinkowskiLoss(p=1), real_data=np.zeros((1, 1)), model=MM.Scripted(vals), parameters_bounds=[[0.0], [1.0]],
                         parameters_precision=[0.001], ensemble_size=1, scheduler=sched, verbose=bool(desc["k"] % 2), random_state=case_seed(desc) % 99991, n_jobs=1,
                         # with a loss sequence that reaches exactly 0.0 the run converges: the stopping batch is reported to the scheduler once
                         convergence_precision=3 if desc["loss"] == "hits_zero" else None)
    for s, nb in enumerate(desc["shape"]):
        state["s"] = s
        rec("session_start", s)
        with quiet():
            cal.calibrate(nb)
        rec("session_end", s, list(queues["act"]()), ["None" if x is None else "outcome" for x in queues["out"]()], alive_fn())


class BatchFailed(Exception):
    """The model or the loss raised inside a batch (after the scheduler had designated its sampler)."""


def drive(desc, sched, env, rec, losses, queues, alive_fn):
    """What Calibrator.calibrate() does with a scheduler, for every session of the shape."""
    b = 0
    fail = tuple(desc.get("fail") or ())
    for s, nb in enumerate(desc["shape"]):
        rec("session_start", s)
        try:
            with sched.session():
                for j in range(nb):
                    smp = sched.get_next_sampler()
                    idx = [i for i, x in enumerate(sched.samplers) if x is smp]
                    rec("run", s, b, idx[0] if idx else None, type(smp).__name__)
                    if fail == (s, j):
                        raise BatchFailed(f"session {s} batch {j}")
                    sched.update(b, np.array([[0.5]]), np.array([losses[b]]), None)
                    rec("update", s, b, losses[b])
                    b += 1
        except BatchFailed:
            rec("batch_failed", s, b)
            b += 1
        rec("session_end", s, list(queues["act"]()), ["None" if x is None else "outcome" for x in queues["out"]()], alive_fn())


# --------------------------------------------------------------------------- oracle
def judge(desc, log, losses, n_samplers_with_bootstrap, halton_index):
    """Sequential specification S1-S4 on one event log. Returns (violations, projection)."""
    bad = []
    sessions = len(desc["shape"])
    threads = []
    for e in log:
        if e[0] in ("policy", "learn") and e[1] not in threads:
            threads.append(e[1])
    # agent thread of session s = s-th distinct thread that ever called policy/learn, by first appearance inside that session
    sess_of = {}
    cur = -1
    for e in log:
        if e[0] == "session_start":
            cur = e[1]
        elif e[0] in ("policy", "learn") and e[1] not in sess_of:
            sess_of[e[1]] = cur
    per = {s: {"policy": [], "learn": [], "consumed": [], "runs": [], "updates": []} for s in range(sessions)}
    cur = -1
    for e in log:
        if e[0] == "session_start":
            cur = e[1]
        elif e[0] == "policy":
            per[sess_of[e[1]]]["policy"].append(e[2])
        elif e[0] == "learn":
            per[sess_of[e[1]]]["learn"].append((e[2], e[3]))
        elif e[0] == "qget" and e[1] == "act" and e[2] == "M":
            per[cur]["consumed"].append(e[3])
        elif e[0] == "run":
            per[cur]["runs"].append((e[2], e[3]))
        elif e[0] == "update":
            per[cur]["updates"].append(e[2])
        elif e[0] == "thread_error":
            bad.append(f"agent thread {e[1]} died with {e[2]}")
    ref_best = None
    first_ever = True
    proj = []
    for s in range(sessions):
        p = per[s]
        # S3 + bootstrap
        cons = list(p["consumed"])
        ci = 0
        executed = []   # (action, batch) for agent-chosen batches, in order
        for (b, idx) in p["runs"]:
            if first_ever:
                # the bootstrap sampler serves until a batch has completed (the scheduler has no best loss before that)
                first_ever = b not in p["updates"]
                if idx != halton_index:
                    bad.append(f"S3 session {s}: the first batch ever was produced by sampler {idx}, the bootstrap (Halton) sampler is {halton_index}")
                executed.append((None, b))
                continue
            if ci >= len(cons):
                bad.append(f"S3 session {s}: batch {b} ran sampler {idx} without consuming an action")
                continue
            a = cons[ci]
            ci += 1
            if a != idx:
                bad.append(f"S3 session {s}: batch {b} consumed action {a!r} but sampler {idx} ran")
            executed.append((a, b))
        chosen = [a for a, _ in executed if a is not None]
        # S1
        if chosen != p["policy"][: len(chosen)]:
            bad.append(f"S1 session {s}: consumed actions {chosen} are not a prefix of this session's policy results {p['policy']} (a stale action was used)")
        if len(p["policy"]) - len(chosen) > 1:
            bad.append(f"S1 session {s}: {len(p['policy']) - len(chosen)} chosen actions were never executed (policy {p['policy']}, executed {chosen})")
        # S2 with reference rewards
        exp_learn = []
        for a, b in executed:
            if b not in p["updates"]:
                continue
            new = losses[b] if ref_best is None else min(ref_best, losses[b])
            if a is None:
                ref_best = new
                continue
            r = (ref_best - new) / ref_best if new < ref_best else 0.0  # new < ref_best implies ref_best > 0: losses are >= 0
            ref_best = new
            exp_learn.append((a, r))
        got = p["learn"]
        ok = len(got) == len(exp_learn) and all(g[0] == e[0] and abs(g[1] - e[1]) <= 1e-12 for g, e in zip(got, exp_learn))
        if not ok:
            bad.append(f"S2 session {s}: learn calls {[(a, round(r, 6)) for a, r in got]} but the executed batches call for {[(a, round(r, 6)) for a, r in exp_learn]}")
        proj.append((tuple(idx for _, idx in p["runs"]), tuple((a, round(r, 9)) for a, r in got)))
    # S4
    for e in log:
        if e[0] == "session_end":
            if e[2] or e[3]:
                bad.append(f"S4 session {e[1]}: messages left over at end_session: actions {e[2]}, outcomes {e[3]}")
            if e[4]:
                bad.append(f"S4 session {e[1]}: agent thread(s) still alive after end_session: {e[4]}")
    return bad, tuple(proj)


# --------------------------------------------------------------------------- controlled mode
def run_controlled(desc, losses, prefix):
    ctl = SC.Ctl(prefix)
    ctl.register_main("M")
    fake = SC.FakeThreading(ctl)
    qs = {}

    def make_queue(name):
        qs[name] = SC.GQueue(ctl, name)
        return qs[name]

    def rec(*e):
        if e and e[0] in ("policy", "learn"):
            e = (e[0], ctl.me() or e[1], *e[2:])
        ctl.record(*e)

    sched, env, restore = build_system(desc, rec, make_queue, fake, flag_hook=lambda kind: ctl.yield_point(("flag", kind)))
    res = {"deadlock": False, "error": None, "unmanaged": None}
    try:
        (drive_calibrator if desc.get("via") == "calibrator" else drive)(
            desc, sched, env, rec, losses, {k: (lambda k=k: list(qs[k].items)) for k in qs}, lambda: [t.name for t in fake.created if t.is_alive()])
    except SC.Deadlock:
        res["deadlock"] = True
        res["deadlock_state"] = ctl.deadlock_state
    except SC.Unmanaged as e:
        res["unmanaged"] = str(e)
    except Exception as e:  # noqa: BLE001
        res["error"] = f"{type(e).__name__}: {e}"
    finally:
        restore()
    halton_index = sched._halton_sampler_id
    res["log"] = list(ctl.log)
    try:   # the state the agent ends in (estimates, counters, generator): must not depend on the interleaving either
        from vlib import state as S_

        res["agent_state"] = repr(S_.canon(sched._agent))
    except Exception as e:  # noqa: BLE001
        res["agent_state"] = f"unavailable: {e!r}"
    res["n"] = len(sched.samplers)
    res["halton"] = halton_index
    ag = sched._agent
    if desc["agent"] == "egreedy" and not res["deadlock"] and res["error"] is None:
        # S7: estimates and visit counts are a function of the learn() calls alone (an action that was chosen but never executed leaves no trace)
        nq, nc = [0.0] * ag.n_actions, [0] * ag.n_actions
        for e in ctl.log:
            if e[0] == "learn":
                a_, r_ = int(e[2]), float(e[3])
                nc[a_] += 1
                nq[a_] += (1.0 / nc[a_] if ag.alpha == -1 else ag.alpha) * (r_ - nq[a_])
        gq, gc = [float(x) for x in ag.Q], [int(x) for x in ag.actions_count]
        if gc != nc or any(abs(x - y) > 1e-12 for x, y in zip(gq, nq)):
            res["s7"] = f"S7 the agent ends with visit counts {gc} and estimates {[round(x, 9) for x in gq]}; its learn() calls alone give {nc} and {[round(x, 9) for x in nq]}"
    res["preemptions"] = sum(1 for (n_en, idx, cur_en) in ctl.trace if idx != 0 and cur_en)
    return ctl.trace, res


def case_controlled(desc, ctx, out):
    rng = rng_for(desc["seed"], 10, desc["k"])
    total = sum(desc["shape"])
    losses = loss_sequence(desc["loss"], total, rng)
    c = out["counters"]
    bound = 2 if ctx.tier == "quick" else (4 if total <= 4 else 3)
    cap = 2500 if ctx.tier == "quick" else 120000
    projections = {}
    nsched = 0
    first_bad = None

    def once(prefix):
        return run_controlled(desc, losses, prefix)

    def handle(prefix, trace, res):
        nonlocal nsched, first_bad
        nsched += 1
        choice = [t[1] for t in trace]
        if res["unmanaged"]:
            raise Inconclusive(f"unmanaged blocking: {res['unmanaged']}")
        bad = []
        if res["deadlock"]:
            bad.append(f"S5 deadlock: no thread enabled, states {res.get('deadlock_state')}")
        if res["error"]:
            bad.append(f"the calibration thread raised {res['error']}")
        b2, proj = judge(desc, res["log"], losses, res["n"], res["halton"])
        bad += b2
        if res.get("s7"):
            bad.append(res["s7"])
        if desc["agent"] == "egreedy":
            c["s7_agent_state_vs_learn_log"] = c.get("s7_agent_state_vs_learn_log", 0) + 1
        proj = (proj, res.get("agent_state"))
        projections.setdefault(proj, choice)
        if res["preemptions"] >= 1 and len(desc["shape"]) >= 2:
            c["preempted_multi_session"] = c.get("preempted_multi_session", 0) + 1
            if len(out["nontrivial"]) < 4000:
                out["nontrivial"].append(jhash([desc["shape"], desc["agent"], desc["loss"], choice]))
        if bad and first_bad is None:
            first_bad = (bad, choice, res["log"])

    for prefix, trace, res in SC.explore(once, bound, max_runs=cap):
        handle(prefix, trace, res)
    # seeded random schedules without a bound
    nrand = 60 if ctx.tier == "quick" else 600
    for _ in range(nrand):
        prefix = [int(x) for x in rng.integers(0, 2, size=int(rng.integers(5, 80)))]
        trace, res = once(prefix)
        handle(prefix, trace, res)
        c["random_schedules"] = c.get("random_schedules", 0) + 1
    c["schedules"] = c.get("schedules", 0) + nsched
    c["cases"] = c.get("cases", 0) + 1
    if desc.get("fail"):
        c["cases_with_a_failing_batch"] = c.get("cases_with_a_failing_batch", 0) + 1
    if desc.get("via") == "calibrator":
        c["cases_via_real_calibrator"] = c.get("cases_via_real_calibrator", 0) + 1
        c["schedules_via_real_calibrator"] = c.get("schedules_via_real_calibrator", 0) + nsched
    out["evals"] += nsched
    wit = {"losses": losses}
    if first_bad is not None:
        bad, choice, log = first_bad
        for b in bad[:3]:
            out["violations"].append({"msg": b + f" [schedule choice list {choice[:40]}]", "witness": dict(wit, choice_list=choice, log=[list(map(str, e)) for e in log][:80])})
    if len(projections) > 1:
        items = list(projections.items())
        same_log = items[0][0][0] == items[1][0][0]
        out["violations"].append({"msg": f"S6 the samplers run / learn calls / final agent state depend on thread timing: {len(projections)} distinct outcomes over {nsched} schedules, "
                                         + (f"same samplers and learn calls but the agent ends in a different state: {str(items[0][0][1])[:150]} vs {str(items[1][0][1])[:150]}" if same_log
                                            else f"e.g. {items[0][0][0]} vs {items[1][0][0]}"),
                                  "witness": dict(wit, schedule_a=items[0][1], schedule_b=items[1][1])})
    c["distinct_projections_max"] = max(c.get("distinct_projections_max", 0), len(projections))
    if desc["k"] % 13 == 0:
        out["sample"] = {"shape": desc["shape"], "agent": desc["agent"], "schedules": nsched, "distinct_outcomes": len(projections),
                         "one_projection": list(projections.keys())[0] if projections else None}


# --------------------------------------------------------------------------- free-running mode
class LQueue(queue.Queue):
    def __init__(self, name, rec):
        super().__init__()
        self._name, self._rec = name, rec

    def put(self, item, block=True, timeout=None):
        super().put(item, block, timeout)
        self._rec("qput", self._name, _who(), item)

    def get(self, block=True, timeout=None):
        item = super().get(block, timeout)
        self._rec("qget", self._name, _who(), item)
        return item


TOOL = 4


def _who():
    n = threading.current_thread().name
    return "M" if n == "verif-driver" else n


def case_free(desc, ctx, out):
    import black_it.schedulers.base as m0
    import black_it.schedulers.rl.agents.epsilon_greedy as m3
    import black_it.schedulers.rl.envs.base as m1
    import black_it.schedulers.rl.envs.mab as m2
    import black_it.schedulers.rl.rl_scheduler as rlmod

    rng = rng_for(desc["seed"], 10, desc["k"])
    total = sum(desc["shape"])
    losses = loss_sequence(desc["loss"], total, rng)
    c = out["counters"]
    mon = sys.monitoring
    files = {m.__file__ for m in (m0, m1, m2, m3, rlmod)}
    reps = 3 if ctx.tier == "quick" else 6
    projections = {}
    for rep in range(reps):
        lock = threading.Lock()
        log = []
        inj = np.random.default_rng(int(rng.integers(2**31)))
        plan = inj.random(4096)
        nline = [0]

        def rec(*e):
            with lock:
                log.append(e)

        def on_line(code, line):
            if code.co_filename not in files:
                return mon.DISABLE
            with lock:
                k = nline[0]
                nline[0] += 1
            u = plan[k % 4096]
            if u < 0.25:
                time.sleep(0)
            elif u < 0.29:
                time.sleep(0.0005 + 0.002 * plan[(k * 7 + 1) % 4096])
            return None

        try:
            mon.use_tool_id(TOOL, "verif-yield")
        except ValueError:
            pass
        mon.register_callback(TOOL, mon.events.LINE, on_line)
        mon.set_events(TOOL, mon.events.LINE)
        before = {t.ident for t in threading.enumerate()}
        qs = {}

        def make_queue(name):
            qs[name] = LQueue(name, rec)
            return qs[name]

        sched, env, restore = build_system(desc, rec, make_queue, threading, flag_hook=None)
        done = threading.Event()
        err = []

        def alive():
            return [t.name for t in threading.enumerate() if t.ident not in before and t.is_alive() and t.name != "verif-driver"]

        def body():
            try:
                drive(desc, sched, env, rec, losses, {k: (lambda k=k: list(qs[k].queue)) for k in qs}, alive)
            except Exception as e:  # noqa: BLE001
                err.append(f"{type(e).__name__}: {e}")
            finally:
                done.set()

        # the calibration side runs in its own thread so that a hang is observed instead of suffered
        drv = threading.Thread(target=body, name="verif-driver", daemon=True)
        try:
            drv.start()
            finished = done.wait(timeout=40.0)
        finally:
            mon.set_events(TOOL, 0)
            mon.register_callback(TOOL, mon.events.LINE, None)
            mon.free_tool_id(TOOL)
            restore()
        if not finished:
            raise Inconclusive(f"free-running run did not finish within the 40 s watchdog (shape {desc['shape']}, agent {desc['agent']}); threads: "
                               + ", ".join(t.name for t in threading.enumerate()))
        c["free_runs"] = c.get("free_runs", 0) + 1
        c["free_line_events"] = c.get("free_line_events", 0) + nline[0]
        out["evals"] += 1
        # map real thread names to sessions: rename for the judge (threads created in order)
        bad, proj = judge(desc, log, losses, len(sched.samplers), sched._halton_sampler_id)
        if err:
            bad.insert(0, f"the calibration thread raised {err[0]}")
        projections.setdefault(proj, rep)
        for b in bad[:2]:
            out["violations"].append({"msg": "[free-running] " + b, "witness": {"losses": losses, "log": [list(map(str, e)) for e in log][:80], "rep": rep}})
        if bad:
            break
    if len(projections) > 1:
        ks = list(projections.keys())
        out["violations"].append({"msg": f"[free-running] S6 outcome depends on thread timing: {ks[0]} vs {ks[1]}", "witness": {"losses": losses}})


def run_case(desc, ctx):
    out = {"violations": [], "counters": {}, "evals": 0, "nontrivial": []}
    if desc["mode"] == "controlled":
        case_controlled(desc, ctx, out)
    else:
        case_free(desc, ctx, out)
    return out
