"""C07 - each built-in loss computes its published definition (independent references beside compute_loss)."""
from __future__ import annotations

import math

import numpy as np

from vlib import lossgen as G
from vlib import lossref as R
from vlib.core import quiet, rng_for

ID = "C07"
LEVEL = "exploration"
RULE = (
    "case = block of (loss configuration, data) pairs for one loss kind: N 5-120, D 1-4, E 1-4; normal, heavy-tailed, "
    "constant, two-valued, tied, monotone, random-walk coordinates at scales 1e-2..1e2; every option (Minkowski p in "
    "{1,1.5,2,3}; MSM identity / inverse-variance / symmetric matrix, standardised or not, default 18 moments and custom "
    "calculators; every loss object is evaluated a second time on data of another length and ensemble size; Fourier ideal/gaussian with f in (0,1]; GSL-div nb_values 2-15/default, word lengths 1-8/default; "
    "likelihood silverman/scott/number), coordinate weights (incl. zeros) and per-coordinate filters (affine, cumsum, "
    "square, HP cycle, log-HP, diff-log-demean). Also the raw 18-moment summary against explicit formulas. "
    "Agreement |got-ref| <= 1e-9 max(1,|ref|,sum|terms|) (GSL 1e-12). Non-trivial = non-default options and (E>=2 or a "
    "filter present); distinct by (loss descriptor, data hash)."
    ' Six per cent of the generated data sets are expressed in units of 1e-13..1e-9 (every definition is scale-free or scale-equivariant).'
)
ASSUMPTIONS = [
    "cases whose value the definition does not determine to working accuracy are skipped and counted: default moments of a "
    "(near-)constant series or |diff| series (0/0), |skewness| or |kurtosis| below 1e-5 (root with unbounded derivative), "
    "inverse-variance weights with a vanishing variance, standardisation by a vanishing real moment, a data value within "
    "1e-12 of a symbolisation bin edge, Fourier f*n_freq at an exact half or a Gaussian sigma of 0",
    "custom moment calculators and coordinate filters are user inputs and are shared between implementation and reference",
]
REQUIRED_COUNTERS = {"data_on_a_large_common_level": 15, "default_constructed": 40, "sim_and_real_lengths_differ": 40, "negative_weight": 15, 
    "minkowski": 50, "msm": 50, "fourier": 50, "gsl": 30, "likelihood": 50, "moments18": 50,
    "integer_typed_data": 40, "with_filters": 40, "with_weights": 40, "ensemble_ge2": 40, "second_call_same_object": 150,
}
SHARDS = {"quick": 16, "thorough": 16}
KINDS = ["minkowski", "msm", "fourier", "gsl", "likelihood", "moments18"]


def gen_cases(tier, seed):
    n = 28 if tier == "quick" else 1500
    return [{"kind": k, "i": i, "seed": seed} for i in range(n) for k in KINDS]


def close(got, ref, rel, extra=0.0, floor=1.0):
    if got != got and ref != ref:
        return True
    if math.isinf(ref) or (isinstance(got, float) and math.isinf(got)):
        return got == ref
    return abs(got - ref) <= rel * max(floor, abs(ref), extra)


def classify_gsl(d, sim, real, got):
    """Mechanism of a GSL mismatch.

    The reference is re-evaluated with word identity taken from the implementation's own get_words() labels and
    everything else (symbolisation, entropies, weights, correction, averaging) from the reference.  The mismatch is the
    recorded finding iff (a) that hybrid reproduces the implementation's value, (b) get_words is shown non-injective on
    this very input, and (c) every conflated word length l has l >= 2 with a symbol >= 10 (base-10 digits overlap) or
    l >= 19 (the packed word leaves the exact integer range).  Anything else stays a violation.
    """
    from black_it.loss_functions.gsl_div import GslDivLoss

    def impl_labels(sym, l):  # noqa: E741
        return np.asarray(GslDivLoss.get_words(np.asarray(sym), l)).tolist()

    E, N, D = sim.shape
    w = [1.0 / D] * D if d.get("weights") is None else d["weights"]
    flags = {"conflation": []}
    one = R.gsl_1d(d["nb_values"], d["nb_word_lengths"], impl_labels, flags)
    tot = 0.0
    for i in range(D):
        col = np.array([R.apply_filter_ref(None if d["filters"] is None else d["filters"][i], sim[e, :, i]) for e in range(E)])
        tot += w[i] * one(col, real[:, i])
    conf = flags["conflation"]
    if not close(got, tot, 1e-12) or not conf:
        return None
    if all((l >= 2 and mx >= 10) or l >= 19 for l, mx in conf):
        return "gsl-word-packing-conflation"
    return None


def run_case(desc, ctx):
    from black_it.utils.time_series import get_mom_ts_1d

    kind = desc["kind"]
    rng = rng_for(desc["seed"], 7, KINDS.index(kind), desc["i"])
    out = {"violations": [], "counters": {}, "evals": 0, "nontrivial": [], "skipped": 0}
    c = out["counters"]
    reps = {"minkowski": 12, "msm": 8, "fourier": 8, "gsl": 6, "likelihood": 8, "moments18": 12}[kind]
    for rep in range(reps):
        if kind == "moments18":
            N = int(rng.integers(8, 400))
            real, _, kinds = G.gen_data(rng, N, 1, 1, None)
            x = real[:, 0]
            if R.moments_ill_conditioned(x):
                out["skipped"] += 1
                continue
            with quiet():
                got = np.asarray(get_mom_ts_1d(x.copy()))
            ref = R.moments18(x)
            c["moments18"] = c.get("moments18", 0) + 1
            out["evals"] += 1
            g2, r2 = got.copy(), ref.copy()
            for j, pw in ((2, 3), (3, 4), (11, 3), (12, 4)):  # undo the roots before comparing
                g2[j], r2[j] = np.sign(g2[j]) * abs(g2[j]) ** pw, np.sign(r2[j]) * abs(r2[j]) ** pw
            tol = 1e-9 * np.maximum(1.0, np.abs(r2))
            if got.shape != (18,) or not np.all(np.abs(g2 - r2) <= tol):
                j = int(np.argmax(np.abs(g2 - r2) - tol)) if got.shape == (18,) else -1
                out["violations"].append({"msg": f"moment {j}: {got[j] if j >= 0 else got!r}, explicit formula gives {ref[j] if j >= 0 else None!r}",
                                          "witness": {"series": x, "shape": kinds}})
            if N >= 20:
                out["nontrivial"].append(f"m18:{hash(x.tobytes()) & 0xFFFFFFFFFF:x}")
            continue

        lo_n = 8 if kind == "msm" else 5
        N = int(rng.integers(lo_n, 121 if kind != "likelihood" else 60))
        long_default = kind == "gsl" and rep == 0 and desc["i"] % 4 == 0
        if long_default:
            N = int(rng.integers(290, 340))        # the default number of symbols and word lengths grows with the length: (T-1)/2 each
        D = int(rng.integers(1, 5))
        E = int(rng.integers(1, 5))
        d = G.gen_loss_desc(rng, kind, D, N)
        if long_default:
            d.update(nb_values=None, nb_word_lengths=None, filters=None)
            D = 1
            d["weights"] = None
            c["gsl_default_options_on_long_series"] = c.get("gsl_default_options_on_long_series", 0) + 1
        int_data = rng.random() < 0.15
        real, sim, kinds = G.gen_data(rng, N, D, E, d["filters"], int_data=int_data)
        if kind in ("msm", "gsl", "likelihood") and rng.random() < 0.3 and N >= lo_n + 4:
            # these three accept simulated series of another length than the real one: T (real) and S (simulated) then play different roles
            cut = int(rng.integers(2, min(N - lo_n, 30) + 1))
            cut_real = bool(rng.random() < 0.5)
            if kind == "gsl":
                # words of the chosen (or default, from the real length) size must exist in both series
                T = N - cut if cut_real else N
                L = d["nb_word_lengths"] if d.get("nb_word_lengths") is not None else int((T - 1) / 2.0)
                cut = min(cut, max(0, N - L - 1))
                if cut_real and d.get("nb_word_lengths") is None:
                    pass  # the default word length shrinks with the real series
            if cut > 0:
                if cut_real:
                    real = np.ascontiguousarray(real[: N - cut])
                else:
                    sim = np.ascontiguousarray(sim[:, : N - cut])
                c["sim_and_real_lengths_differ"] = c.get("sim_and_real_lengths_differ", 0) + 1
        if kind in ("likelihood", "minkowski") and not int_data and d.get("filters") is None and rng.random() < 0.2:
            # a common level far above the fluctuations (prices around 1e6 moving by units): the definitions only see differences
            level = float(rng.choice([-1.0, 1.0]) * 10.0 ** rng.uniform(3, 8))
            real, sim = real + level, sim + level
            c["data_on_a_large_common_level"] = c.get("data_on_a_large_common_level", 0) + 1
        if int_data:
            c["integer_typed_data"] = c.get("integer_typed_data", 0) + 1
        if d.get("defaults"):
            c["default_constructed"] = c.get("default_constructed", 0) + 1
        if d.get("weights") is not None and min(d["weights"]) < 0:
            c["negative_weight"] = c.get("negative_weight", 0) + 1
        wit = {"loss": d, "N": real.shape[0], "S": sim.shape[1], "D": D, "E": E, "shapes": kinds, "real": real, "sim": sim, "dtype": str(sim.dtype)}
        flags = {}
        try:
            ref, per = G.reference_value(d, sim, real, flags)
        except Exception as e:  # noqa: BLE001  (reference undefined, e.g. log of non-positive after a filter chain)
            out["skipped"] += 1
            c["ref_error"] = c.get("ref_error", 0) + 1
            continue
        if ref is None or ref != ref or flags.get("near_edge"):
            out["skipped"] += 1
            continue
        real_b, sim_b = real.copy(), sim.copy()
        try:
            with quiet():
                loss = G.build_loss(d)
                got = float(loss.compute_loss(sim_b, real_b))
        except Exception as e:  # noqa: BLE001
            v = {"msg": f"{kind}: compute_loss raised {type(e).__name__}: {e}", "witness": wit}
            if kind == "gsl" and isinstance(e, OverflowError):
                # the recorded finding: with long words the packed word / the entropy base b**l leave the float range
                T_ = real.shape[0]
                b_ = d["nb_values"] if d.get("nb_values") is not None else int((T_ - 1) / 2.0)
                L_ = d["nb_word_lengths"] if d.get("nb_word_lengths") is not None else int((T_ - 1) / 2.0)
                if (b_ >= 2 and L_ * math.log10(b_) > 308.0) or L_ >= 309:
                    v["mechanism"] = "gsl-long-words-overflow"
            out["violations"].append(v)
            continue
        c[kind] = c.get(kind, 0) + 1
        out["evals"] += 1
        if d["filters"] is not None and any(f is not None for f in d["filters"]):
            c["with_filters"] = c.get("with_filters", 0) + 1
        if d["weights"] is not None:
            c["with_weights"] = c.get("with_weights", 0) + 1
        if E >= 2:
            c["ensemble_ge2"] = c.get("ensemble_ge2", 0) + 1
        nondefault = any(d.get(k) not in (None, 2, "identity", "default", False, "gaussian", 0.8, "silverman") for k in d if k not in ("kind",))
        if nondefault and (E >= 2 or d["filters"] is not None):
            out["nontrivial"].append(f"{kind}:{hash((repr(d), sim.tobytes())) & 0xFFFFFFFFFFFF:x}")
        rel = 1e-12 if kind == "gsl" else 1e-9
        if not close(got, ref, rel, flags.get("abs_scale", 0.0) if kind != "gsl" else 0.0, flags.get("floor", 1.0)):
            v = {"msg": f"{kind}: compute_loss = {got!r}, definition gives {ref!r} (options {d})", "witness": wit}
            if kind == "gsl":
                mech = classify_gsl(d, sim, real, got)
                if mech:
                    v["mechanism"] = mech
            out["violations"].append(v)
        # the same loss object on data of another length and ensemble size: the definition applies to every call, not only the first
        N2 = int(rng.integers(lo_n, 121 if kind != "likelihood" else 60))
        E2 = int(rng.integers(1, 5))
        if kind == "gsl" and d.get("nb_word_lengths") is not None:
            N2 = max(N2, d["nb_word_lengths"] + 1)
        real2, sim2, kinds2 = G.gen_data(rng, N2, D, E2, d["filters"])
        flags2 = {}
        try:
            ref2, _ = G.reference_value(d, sim2, real2, flags2)
        except Exception:  # noqa: BLE001
            ref2 = None
        if ref2 is not None and ref2 == ref2 and not flags2.get("near_edge"):
            try:
                with quiet():
                    got2 = float(loss.compute_loss(sim2.copy(), real2.copy()))
                c["second_call_same_object"] = c.get("second_call_same_object", 0) + 1
                if not close(got2, ref2, rel, flags2.get("abs_scale", 0.0) if kind != "gsl" else 0.0, flags2.get("floor", 1.0)):
                    v = {"msg": f"{kind}: second evaluation on the same object (N {N}->{N2}, E {E}->{E2}): compute_loss = {got2!r}, definition gives {ref2!r} (options {d})",
                         "witness": {"loss": d, "first": {"N": N, "E": E}, "second": {"N": N2, "E": E2, "real": real2, "sim": sim2}}}
                    if kind == "gsl":
                        mech = classify_gsl(d, sim2, real2, got2)
                        if mech:
                            v["mechanism"] = mech
                    out["violations"].append(v)
            except Exception as e:  # noqa: BLE001
                out["violations"].append({"msg": f"{kind}: second evaluation on the same object raised {type(e).__name__}: {e}", "witness": {"loss": d, "N2": N2, "E2": E2}})
        if "sample" not in out and desc["i"] == 0:
            out["sample"] = {"loss": d, "N": N, "D": D, "E": E, "got": got, "reference": ref}
    return out
