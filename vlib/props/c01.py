"""C01 - a calibration run is a pure function of configuration and seed (differential runs, byte-equality oracle)."""
from __future__ import annotations

import json
import os
import subprocess
import sys

import numpy as np

from vlib import calgen as CG
from vlib import gen as G
from vlib import state as S
from vlib.core import quiet, jhash, rng_for
from vlib.runcfg import run

ID = "C01"
LEVEL = "exploration"
RULE = (
    "case = generated configuration (1-4 parameters, line-up of 1-5 samplers from the nine built-ins in any admissible "
    "order with repeated classes and batch sizes 1-3, list / RoundRobinScheduler / RLScheduler (one session), all built-in "
    "losses with options, ensemble 1-3, calibrator seed, 1-6 batches; thorough up to 10) run once as base (n_jobs=1, quiet, "
    "no folder, constructor seeds from the descriptor) and again as variants: n_jobs 2 and 4, verbose, saving folder, "
    "different / None sampler-constructor seeds, and twins in fresh processes (each with its own PYTHONHASHSEED, one after an "
    "unrelated calibration). Model kinds: plain witness, one that sorts its parameter argument in place, one returning inf / "
    "1e300-sized values (non-finite losses; always with the saving-folder variant), one whose run time varies per task. Oracle: dtype/shape/bytes equality of the "
    "five history arrays and of both returned arrays. Non-trivial = >=2 sampler classes or a stateful/stochastic sampler, "
    ">=2 batches and a variant differing in n_jobs or constructor seeds; distinct by configuration hash."
)
ASSUMPTIONS = [
    "HP-based coordinate filters are not used here: their sparse solve (SuperLU/OpenBLAS) was observed to differ by ulps with buffer alignment, which is third-party",
    "fresh sampler objects per run; reuse of an already used sampler object is outside the statement",
    "a run that ends in a third-party exception must end identically in every variant",
]
REQUIRED_COUNTERS = {"variant_scheduler_ctor_seed": 10, "runs_with_set_samplers_mid_run": 2, "tiny_grid_cases": 3, "models_using_the_global_numpy_generator": 2, "models_mutating_their_argument": 5, "models_returning_nonfinite_or_huge": 3, "models_with_uneven_run_time": 1, "base_runs": 30, "variant_njobs": 20, "variant_ctor_seeds": 20, "variant_verbose": 8, "variant_folder": 8,
                     "variant_fresh_process": 10, "rl_runs": 4}
SHARDS = {"quick": 16, "thorough": 16}
SHARD_WATCHDOG = {"quick": 1500, "thorough": 10800}


def gen_cases(tier, seed):
    n = 48 if tier == "quick" else 1000
    return [{"i": i, "seed": seed, "tier": tier} for i in range(n)]


def compare(a, b):
    d = S.history_equal(a, b)
    for k in ("ret_p", "ret_l"):
        if (k in a) != (k in b):
            d.append(f"{k}: returned by one run only")
        elif k in a and not (a[k].dtype == b[k].dtype and a[k].shape == b[k].shape and a[k].tobytes() == b[k].tobytes()):
            d.append(f"{k}: return values differ")
    if not d and "sched_state" in a and "sched_state" in b and str(a["sched_state"]) != str(b["sched_state"]):
        sa, sb = str(a["sched_state"]), str(b["sched_state"])
        k = next((i for i in range(min(len(sa), len(sb))) if sa[i] != sb[i]), 0)
        d.append(f"histories are equal but the scheduler/sampler/agent state the runs ended in differs (a later batch will differ): ...{sa[max(0, k - 60):k + 60]}... vs ...{sb[max(0, k - 60):k + 60]}...")
    if (a.get("error") or "") != (b.get("error") or ""):
        ea, eb = (a.get("error") or "").split(":")[0], (b.get("error") or "").split(":")[0]
        if ea != eb:
            d.append(f"one run ended with {a.get('error')!r}, the other with {b.get('error')!r}")
    return d


def fresh_process(cfg, calls, ctx, prelude=None, hashseed=1):
    d = ctx.scratch()
    (d / "job.json").write_text(json.dumps({"cfg": cfg, "calls": calls, "prelude": prelude}))
    env = dict(os.environ)
    # string hashing differs from process to process in real use: give every twin its own hash seed, never the parent's
    env["PYTHONHASHSEED"] = str(hashseed)
    try:
        subprocess.run([sys.executable, "-m", "vlib.runcfg", str(d / "job.json"), str(d / "out.npz")], env=env, timeout=300, check=True,  # noqa: S603
                       stdout=subprocess.DEVNULL, stderr=subprocess.PIPE)
    except subprocess.TimeoutExpired:
        return None
    z = np.load(d / "out.npz", allow_pickle=False)
    r = {k: z[k] for k in z.files if k != "error"}
    if "sched_state" in r:
        r["sched_state"] = str(r["sched_state"])
    r["error"] = str(z["error"]) or None
    return r


def run_case(desc, ctx):
    i = desc["i"]
    rng = rng_for(desc["seed"], 1, i)
    out = {"violations": [], "counters": {}, "evals": 0, "nontrivial": []}
    c = out["counters"]
    heavy = i % 4 == 0            # all nine samplers, incl. RF/GP/CORS
    rl = i % 6 == 1
    kinds = None if heavy else G.CHEAP + ["XGBoost"]
    mutating = i % 5 == 2   # the user's model rearranges its parameter array in place
    extreme = i % 7 == 3 and not mutating    # the model returns inf / 1e300-sized values: non-finite losses enter the history
    slow = i % 9 == 4 and not mutating and not extreme   # task run time varies: parallel tasks finish out of submission order
    globalrng = i % 11 == 7 and not (mutating or extreme or slow)   # the model seeds and uses numpy's process-global generator
    tiny = i % 8 == 6 and not rl      # a grid of a few points: de-duplication runs through all its passes (always with the verbose variant)
    mkind = "mut" if mutating else (str(rng.choice(["inf", "huge"])) if extreme else ("slow" if slow else ("globalrng" if globalrng else "plain")))
    cfg = CG.gen_config(rng, kinds=kinds, scheduler="rl" if rl else None, n_samplers=int(rng.integers(1, 6)), max_bs=3,
                        model=mkind, params=int(rng.integers(2, 5)) if mutating else None, **({"max_points": 3, "max_params": 2} if tiny else {}))
    if globalrng:
        c["models_using_the_global_numpy_generator"] = 1
    if tiny:
        c["tiny_grid_cases"] = 1
    if cfg["scheduler"] in ("rr", "rl") and i % 2 == 0:
        cfg["sched_ctor_seed"] = None      # base: the user-built scheduler is unseeded; a variant seeds it with the calibrator's own seed
    if extreme:
        c["models_returning_nonfinite_or_huge"] = 1
    if slow:
        c["models_with_uneven_run_time"] = 1
    if mutating:
        c["models_mutating_their_argument"] = 1
    if heavy:  # force a given class into a given position so that every class meets every role over a run of cases
        k = G.SAMPLER_KINDS[(i // 4) % 9]
        pos = int(rng.integers(0, len(cfg["lineup"]) + 1))
        if pos == 0 and k not in G.HISTORY_FREE:
            pos = 1 if len(cfg["lineup"]) else 0
        if pos > 0 or k in G.HISTORY_FREE:
            have = sum(d["batch_size"] for d in cfg["lineup"][:pos])
            bs = 1 if k == "BestBatch" else int(rng.integers(1, 3))
            if not (k == "BestBatch" and have < bs) and not (pos == 0 and k not in G.HISTORY_FREE):
                cfg["lineup"].insert(pos, G.gen_sampler_desc(rng, k, batch_size=bs))
    nb = int(rng.integers(2, 7 if desc["tier"] == "quick" else 11))
    calls = [nb]
    if i % 6 == 3 and not rl and nb >= 3:
        # the line-up is replaced in the middle of the run: the same script with the same seed still gives the same history
        k_cut = int(rng.integers(1, nb))
        newl = G.gen_lineup(rng, n=int(rng.integers(1, 4)), kinds=G.HISTORY_FREE + ["BestBatch"], max_bs=2)
        for d_ in newl:
            if d_["kind"] == "BestBatch":
                d_["batch_size"] = 1
        calls = [k_cut, {"set_samplers": newl}, nb - k_cut]
        c["runs_with_set_samplers_mid_run"] = 1
    wit = {"config": cfg, "calls": calls}
    base = run(cfg, calls)
    base.pop("cal")
    c["base_runs"] = 1
    if rl:
        c["rl_runs"] = 1
    out["evals"] = 1
    variants = []
    variants.append(("n_jobs=2", {"n_jobs": 2}))
    if i % 3 == 0:
        variants.append(("n_jobs=4", {"n_jobs": 4}))
    variants.append(("ctor_seeds_shifted", {"ctor_seed_shift": 12345}))
    if i % 2 == 0:
        variants.append(("ctor_seeds_none", {"ctor_seed_shift": None}))
    if i % 4 == 1 or tiny:
        variants.append(("verbose", {"verbose": True}))
    if "sched_ctor_seed" in cfg:
        variants.append(("scheduler_seeded_like_the_calibrator", {"cfg_override": {"sched_ctor_seed": cfg["seed"]}}))
        variants.append(("scheduler_seeded_otherwise", {"cfg_override": {"sched_ctor_seed": 987654}}))
    if (i % 4 == 2 or extreme) and not rl:
        fdir = ctx.scratch() / "ck"
        if i % 3 == 0:
            # the folder holds the checkpoint of an unrelated earlier calibration: saving there must not change what this run computes
            try:
                prng2 = rng_for(desc["seed"], 1, 2 * 10**6 + i)
                other_cfg = CG.gen_config(prng2, kinds=G.HISTORY_FREE, n_samplers=2, max_bs=2)
                with quiet():
                    CG.build_calibrator(other_cfg, folder=str(fdir)).calibrate(2)
                c["folder_variant_into_used_folder"] = 1
            except Exception:  # noqa: BLE001
                pass
        variants.append(("folder", {"folder": str(fdir)}))
    for name, kw in variants:
        kw = dict(kw)
        over = kw.pop("cfg_override", None)
        r = run(dict(cfg, **over) if over else cfg, calls, **kw)
        if over:
            c["variant_scheduler_ctor_seed"] = c.get("variant_scheduler_ctor_seed", 0) + 1
        r.pop("cal")
        out["evals"] += 1
        key = "variant_njobs" if name.startswith("n_jobs") else "variant_ctor_seeds" if name.startswith("ctor") else ("variant_sched_seed" if name.startswith("scheduler_seeded") else f"variant_{name}")
        c[key] = c.get(key, 0) + 1
        d = compare(base, r)
        if d:
            out["violations"].append({"msg": f"variant {name} differs from the base run: " + "; ".join(d[:3]), "witness": dict(wit, variant=name)})
    if i % 4 == 3:
        # process history must not matter: a twin in a fresh process, and a twin in a fresh process that first ran an unrelated
        # lower-dimensional calibration touching every cheap sampler class (shared class-level or module-level state would show)
        prng = rng_for(desc["seed"], 1, 10**6 + i)
        prelude = CG.gen_config(prng, kinds=G.CHEAP, n_samplers=4, max_bs=2, params=max(1, min(2, cfg["P"] - 1)), loss_kinds=["minkowski", "msm"])
        prelude["lineup"][0]["kind"] = "Halton"
        for k, (name, pre) in enumerate((("fresh_process", None), ("fresh_process_after_unrelated_run", prelude))):
            r = fresh_process(cfg, calls, ctx, pre, hashseed=1 + (i * 7919 + 104729 * k + desc["seed"]) % 4000000)
            if r is None:
                c["fresh_process_timeout"] = c.get("fresh_process_timeout", 0) + 1
                continue
            c["variant_fresh_process"] = c.get("variant_fresh_process", 0) + 1
            out["evals"] += 1
            d = compare(base, r)
            if d:
                out["violations"].append({"msg": f"twin '{name}' differs from the base run (the result depends on what ran earlier in the process): " + "; ".join(d[:3]),
                                          "witness": dict(wit, variant=name, prelude=pre)})
    if base.get("error"):
        c["base_ended_by_exception"] = 1
        wit["ended_by"] = base["error"]
    kinds_used = {d["kind"] for d in cfg["lineup"]}
    if (len(kinds_used) >= 2 or any(CG.stateful(k) for k in kinds_used)) and nb >= 2:
        out["nontrivial"].append(jhash(cfg))
    if i < 2 or base.get("error"):
        out["sample"] = {"lineup": [(d["kind"], d["batch_size"]) for d in cfg["lineup"]], "scheduler": cfg["scheduler"], "loss": cfg["loss"]["kind"],
                         "E": cfg["E"], "batches": nb, "variants": [v[0] for v in variants], "rows": int(len(base["losses_samp"])),
                         "ended_by": base.get("error")}
    return out
