"""C19 - the bandit environment's reward and the epsilon-greedy agent's update rule (step-by-step reference)."""
from __future__ import annotations

import numpy as np

from vlib.core import rng_for

ID = "C19"
LEVEL = "exploration"
RULE = (
    "case = block of (agent, environment) sequences: n_actions 1-8, alpha in {-1 / -1.0 (sample average), 0 (frozen), 0.01..1}, eps in "
    "{0, 0.1, 0.5, 1}, initial values, seed; 1-200 steps of rewards produced by feeding random / improving / "
    "non-improving / adversarial best-loss observations through the real MABCalibrationEnv, with env.reset() interleaved (a new "
    "session) and special seeds 0 / 1 / 2^32-1. After every learn() the "
    "agent's Q and counts are compared with a plain-float reference; every policy() and get_reward() result is judged. "
    "Non-trivial = at least 2 actions visited at least twice each; distinct by sequence hash."
    ' Directly handed rewards come as float, numpy float32 / float64 / int64, int or 0-d array; 1.5% of the steps call agent.reset() on both twins, 2% replace the agent by a pickled / deep copy of itself; a `tiny` mode uses reference losses from 1e-13 down to denormals.'
)
ASSUMPTIONS = ["the one undefined case of the rule - an improvement over a reference of exactly 0.0 (division by zero) - is not generated; zero and negative references with any other observation are"]
REQUIRED_COUNTERS = {"tiny_reference_sequences": 80, "agents_replaced_by_a_pickled_or_deep_copy": 500, "agent_resets": 400, "rewards_of_other_numeric_types": 500, "chosen_actions_never_executed": 500, "nan_observations": 300, "nan_reference_sequences": 50, "alpha_zero_sequences": 50, "special_seed_sequences": 80, "env_resets_between_observations": 500, "zero_reference_steps": 200, "negative_reference_steps": 200, "twins_seeded_through_setter": 100, "learn_steps": 2000, "policy_calls": 2000, "reward_calls": 2000, "improving_steps": 200, "twin_pairs": 50}
SHARDS = {"quick": 8, "thorough": 16}


def gen_cases(tier, seed):
    n = 150 if tier == "quick" else 40000
    return [{"i": i, "seed": seed} for i in range(n)]


def one_sequence(rng, out):
    from black_it.schedulers.rl.agents.epsilon_greedy import MABEpsilonGreedy
    from black_it.schedulers.rl.envs.mab import MABCalibrationEnv

    c = out["counters"]
    n = int(rng.integers(1, 9))
    alpha = float(rng.choice([-1, -1, 0.0, 0.01, 0.1, 0.5, 1.0, float(rng.uniform(0.01, 1))]))   # 0.0 = frozen estimates
    if alpha == -1 and rng.random() < 0.5:
        alpha = -1                      # the sentinel as the integer literal of the documentation (else as the float -1.0)
    if alpha == 0.0:
        c["alpha_zero_sequences"] = c.get("alpha_zero_sequences", 0) + 1
    eps = float(rng.choice([0.0, 0.0, 0.1, 0.5, 1.0]))
    init = float(rng.choice([0.0, 0.0, 1.0, -0.5, float(rng.normal())]))
    if rng.random() < 0.25:
        init = int(rng.integers(0, 3))  # an integer is a legitimate initial value
    seed = int(rng.integers(0, 2**31))
    if rng.random() < 0.15:
        seed = int(rng.choice([0, 0, 1, 2**32 - 1]))   # 0 is the most popular seed - and falsy
        c["special_seed_sequences"] = c.get("special_seed_sequences", 0) + 1
    steps = int(rng.integers(1, 201))
    agent = MABEpsilonGreedy(n, alpha, eps, initial_values=init, random_state=seed)
    # the twin receives the same seed the way a scheduler hands it over: through the random_state setter, after construction
    how = int(rng.integers(0, 3))
    if how == 0:
        twin = MABEpsilonGreedy(n, alpha, eps, initial_values=init, random_state=seed)
    else:
        twin = MABEpsilonGreedy(n, alpha, eps, initial_values=init, random_state=None if how == 1 else int(rng.integers(0, 1000)))
        twin.random_state = seed
        c["twins_seeded_through_setter"] = c.get("twins_seeded_through_setter", 0) + 1
    env = MABCalibrationEnv(n)
    best0 = float(10.0 ** rng.uniform(-3, 3))
    mode = str(rng.choice(["random", "improving", "flat", "adversarial", "zero_reference", "negative", "nan_reference", "tiny"]))
    if mode == "tiny":
        # a well-converged quadratic loss, a loss expressed in small units, down to denormals: the rule is scale-free
        best0 = float(10.0 ** rng.uniform(-320, -13))
        if best0 == 0.0:
            best0 = 5e-324 * 1000
        c["tiny_reference_sequences"] = c.get("tiny_reference_sequences", 0) + 1
    if mode == "zero_reference":
        best0 = 0.0          # a perfect fit was reached: later observations cannot improve on it (losses are >= 0 here)
    elif mode == "negative":
        best0 = -best0       # e.g. a likelihood-type loss
    elif mode == "nan_reference":
        best0 = float("nan")  # the bootstrap batch had no finite loss: nothing ever compares as lower, rewards stay 0
        c["nan_reference_sequences"] = c.get("nan_reference_sequences", 0) + 1
    env._curr_best_loss = best0
    ref_best = best0
    Q = [float(init)] * n
    cnt = [0] * n
    desc = {"n_actions": n, "alpha": alpha, "eps": eps, "init": init, "seed": seed, "steps": steps, "mode": mode, "best0": best0}
    trace = []

    def bad(msg):
        out["violations"].append({"msg": msg, "witness": dict(desc, trace=trace[-6:])})

    import copy
    import pickle

    for t in range(steps):
        if t > 0 and rng.random() < 0.02:
            # the agent is serialised / cloned in the middle of a run (a checkpoint, an A/B branch) and the COPY goes on
            agent = pickle.loads(pickle.dumps(agent)) if rng.random() < 0.5 else copy.deepcopy(agent)  # noqa: S301
            c["agents_replaced_by_a_pickled_or_deep_copy"] = c.get("agents_replaced_by_a_pickled_or_deep_copy", 0) + 1
        if t > 0 and rng.random() < 0.015:
            # reset() between two experiments: what it leaves behind is read back (the rule does not say), but it is the same for
            # equal agents and the random stream of the agent goes on from where it was
            agent.reset()
            twin.reset()
            c["agent_resets"] = c.get("agent_resets", 0) + 1
            if [float(x) for x in agent.Q] != [float(x) for x in twin.Q] or list(agent.actions_count) != list(twin.actions_count):
                return bad("reset() left two equal agents in different states")
            if agent.random_state != seed:
                return bad(f"reset() changed the agent's seed from {seed} to {agent.random_state!r}")
            Q, cnt = [float(x) for x in agent.Q], [int(x) for x in agent.actions_count]
        q_before, n_before = [float(x) for x in agent.Q], list(agent.actions_count)
        a = agent.policy(0)
        a2 = twin.policy(0)
        if [float(x) for x in agent.Q] != q_before or list(agent.actions_count) != n_before:
            return bad(f"policy() changed the agent's estimates or visit counts (Q {q_before} -> {[float(x) for x in agent.Q]}, counts {n_before} -> {list(agent.actions_count)}): only learn() may")
        if rng.random() < 0.08:
            # the chosen action is never executed (the session ended, or its batch failed): nothing is learnt from it
            c["chosen_actions_never_executed"] = c.get("chosen_actions_never_executed", 0) + 1
            continue
        c["policy_calls"] = c.get("policy_calls", 0) + 1
        if not (isinstance(a, (int, np.integer)) and 0 <= a < n):
            return bad(f"policy returned {a!r}, not a valid action index in range({n})")
        if a != a2:
            return bad(f"two agents with seed {seed} fed equal rewards chose {a} and {a2} at step {t}")
        if eps == 0.0 and not (Q[a] == max(Q)):
            return bad(f"eps=0 but chosen action {a} has estimate {Q[a]!r} < max {max(Q)!r}")
        if rng.random() < 0.05:
            # a new session starts (RLScheduler._train resets the environment at the start of every session): the reference best stays
            env.reset()
            c["env_resets_between_observations"] = c.get("env_resets_between_observations", 0) + 1
            if env._curr_best_loss != ref_best and ref_best == ref_best:
                return bad(f"after env.reset() the reference best is {env._curr_best_loss!r}, it was {ref_best!r}")
        # observation
        if mode == "zero_reference":
            new = float(rng.choice([0.0, float(rng.uniform(0.0, 3.0))]))
            c["zero_reference_steps"] = c.get("zero_reference_steps", 0) + 1
        elif mode == "negative":
            new = ref_best + float(rng.normal()) * abs(ref_best) * 0.5
            c["negative_reference_steps"] = c.get("negative_reference_steps", 0) + 1
        elif mode == "improving":
            new = ref_best * float(rng.uniform(0.3, 0.999))
        elif mode == "tiny":
            new = ref_best * float(rng.choice([0.25, 0.5, 0.75, 1.0, 2.0, float(rng.uniform(0.1, 1.5))]))
            if new == 0.0:
                new = ref_best
        elif mode == "flat":
            new = ref_best * float(rng.uniform(1.0, 3.0))
        elif mode == "adversarial":
            new = float(rng.choice([ref_best, np.nextafter(ref_best, 0), np.nextafter(ref_best, np.inf), ref_best * 0.5, ref_best * 2]))
        else:
            new = float(10.0 ** rng.uniform(-3, 3))
        if rng.random() < 0.04:
            new = float("nan")       # a batch whose best loss could not be evaluated: not an improvement (every comparison with NaN is false)
            c["nan_observations"] = c.get("nan_observations", 0) + 1
        r = env.get_reward(np.zeros(1), new)
        c["reward_calls"] = c.get("reward_calls", 0) + 1
        direct = mode == "adversarial" and t % 3 == 2   # the agent's rule holds for any reward it is handed, not only the environment's
        r_env = r
        if new < ref_best:
            exp_r = (ref_best - new) / ref_best
            ref_best = new
            c["improving_steps"] = c.get("improving_steps", 0) + 1
        else:
            exp_r = 0.0
        trace.append({"t": t, "action": int(a), "new_best": new, "reward": r})
        if not (abs(r_env - exp_r) <= 1e-15 * max(1.0, abs(exp_r))):
            return bad(f"reward {r!r}, rule gives {exp_r!r} (prev best, new best = {trace[-1]})")
        if env._curr_best_loss != ref_best and not (env._curr_best_loss != env._curr_best_loss and ref_best != ref_best):
            return bad(f"environment reference best {env._curr_best_loss!r}, rule gives {ref_best!r}")
        if direct:
            r = float(rng.choice([-1.0, -0.25, 0.0, 1.5, float(rng.normal() * 3)]))
            c["direct_rewards"] = c.get("direct_rewards", 0) + 1
            rt = str(rng.choice(["float", "np.float32", "int", "np.int64", "np.float64", "0-d array"]))
            if rt != "float":
                # a real number that is not a `float` instance (gymnasium-style environments return numpy scalars)
                r = {"np.float32": lambda v: np.float32(v), "int": lambda v: int(round(v)), "np.int64": lambda v: np.int64(round(v)),
                     "np.float64": lambda v: np.float64(v), "0-d array": lambda v: np.array(v)}[rt](r)
                c["rewards_of_other_numeric_types"] = c.get("rewards_of_other_numeric_types", 0) + 1
        agent.learn(0, a, r, 0)
        twin.learn(0, a, r, 0)
        r = float(r)
        c["learn_steps"] = c.get("learn_steps", 0) + 1
        cnt[a] += 1
        step = 1.0 / cnt[a] if alpha == -1 else alpha
        Q[a] = Q[a] + step * (r - Q[a])
        if list(agent.actions_count) != cnt:
            return bad(f"actions_count {list(agent.actions_count)} != {cnt}")
        gotQ = [float(x) for x in agent.Q]
        for k in range(n):
            tol = 0.0 if k != a else 4e-16 * max(1.0, abs(Q[k]))
            if not abs(gotQ[k] - Q[k]) <= tol:
                return bad(f"after learn(action={a}, reward={r!r}) Q[{k}] = {gotQ[k]!r}, rule gives {Q[k]!r}")
        Q = gotQ  # follow the implementation's rounding so that errors do not accumulate in the reference
    c["twin_pairs"] = c.get("twin_pairs", 0) + 1
    out["evals"] += 1
    if sum(1 for x in cnt if x >= 2) >= 2:
        out["nontrivial"].append(f"{hash(repr(desc)) & 0xFFFFFFFFFFFF:x}")
    if "sample" not in out:
        out["sample"] = dict(desc, final_Q=Q, counts=cnt, last_events=trace[-2:])
    return None


def run_case(desc, ctx):
    rng = rng_for(desc["seed"], 19, desc["i"])
    out = {"violations": [], "counters": {}, "evals": 0, "nontrivial": []}
    for _ in range(12):
        one_sequence(rng, out)
        if len(out["violations"]) > 2:
            break
    if desc["i"] > 2:
        out.pop("sample", None)
    return out
