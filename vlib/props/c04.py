"""C04 - a checkpoint restores the calibrator state exactly (canonical-state comparison over operation histories)."""
from __future__ import annotations

import numpy as np

from vlib import calgen as CG
from vlib import gen as G
from vlib import lossgen as LG
from vlib import models as M
from vlib import state as S
from vlib.core import jhash, quiet, rng_for

ID = "C04"
LEVEL = "exploration"
RULE = (
    "kinds: 'cal' = generated calibrator (round-robin list/scheduler or RL scheduler, 1-4 parameters incl. 0.01 / 1/3 / 1e-6 "
    "grids, any loss) driven through a generated history of operations {calibrate(n), create_checkpoint(other folder), "
    "restore-and-continue, set_samplers}; the saving folder starts empty, or holds an earlier checkpoint of a different run "
    "(more rows / fewer rows / different ensemble, N, D / same shape); includes the no-batch-yet state and a convergence "
    "stop. After every calibrate() return with a folder and after every explicit checkpoint the folder is restored and "
    "snapshot(restored) == snapshot(live) (configuration, counters, five history arrays by dtype/shape/bytes, generator "
    "state, id table, scheduler+samplers internals, loss). 'tuple' = arbitrary state tuples (17-digit floats, subnormals, "
    "1e+-300, +-inf, NaN-free) pushed through save/load of the JSON/CSV/HDF5 and of the SQLite back-end, on empty and "
    "pre-populated folders. Non-trivial = >= 2 batches saved and (pre-populated folder or a float that is not "
    "shortest-repr friendly); distinct by operation-history hash."
    ' In the tuple round trips the saving-folder and model-name strings include numeric-looking ("20240927", "0012", "3.10", "1e5"), quoted, padded and non-ASCII spellings.'
)
ASSUMPTIONS = [
    "fitted third-party estimator objects held by surrogate samplers are excluded from the canonical state",
    "Python scalars compare with == (True == 1, 3 == 3.0); list vs tuple is not a difference",
]
REQUIRED_COUNTERS = {"second_restores_of_the_same_folder": 60, "calibrators_without_saving_folder": 6, "convergence_precision_zero": 2, "real_data_with_nonfinite_entries": 4, "many_parameter_cases": 8, "relative_folder_cases": 10, "restores_compared": 60, "tuple_roundtrips_json": 40, "tuple_roundtrips_sqlite": 40, "prepopulated_folder": 15,
                     "no_batch_yet": 3, "after_set_samplers": 3, "convergence_stop": 3, "rl_scheduler": 3}
SHARDS = {"quick": 16, "thorough": 16}
SHARD_WATCHDOG = {"quick": 1500, "thorough": 10800}


def gen_cases(tier, seed):
    k = 1 if tier == "quick" else 80
    cases = [{"kind": "cal", "i": i, "seed": seed} for i in range(96 * k)]
    cases += [{"kind": "tuple", "i": i, "seed": seed} for i in range(32 * k)]
    cases += [{"kind": "conv", "i": i, "seed": seed} for i in range(6 * k)]
    return cases


def classify(v):
    return v.get("mechanism")


def stress_floats(rng, n):
    pool = [0.1, 0.2, 0.3, 1 / 3, 2 / 3, 0.01 * 7, 1e-300, 1e300, 5e-324, 2.2250738585072014e-308, 1.7976931348623157e308,
            0.1 + 0.2, 1e22, 1e23, 9007199254740993.0, 123456789.12345678, 4.35, 8.41e21, 5e-324 * 3]
    x = rng.random(n) * 10.0 ** rng.integers(-8, 9, size=n)
    for j in range(n):
        u = rng.random()
        if u < 0.35:
            x[j] = pool[int(rng.integers(len(pool)))] * (1 if rng.random() < 0.8 else -1)
        elif u < 0.45:
            x[j] = np.nextafter(x[j], np.inf)
    return x


def compare_restore(cal, folder, model, out, wit, label):
    from black_it.calibrator import Calibrator

    c = out["counters"]
    live = S.snapshot(cal)
    try:
        with quiet():
            rest = Calibrator.restore_from_checkpoint(str(folder), model)
        got = S.snapshot(rest)
    except Exception as e:  # noqa: BLE001
        out["violations"].append({"msg": f"{label}: restore raised {type(e).__name__}: {str(e)[:200]}", "witness": wit})
        return None
    c["restores_compared"] = c.get("restores_compared", 0) + 1
    out["evals"] += 1   # one evaluation per restore compared with the live state
    d = S.diff(live, got)
    if d:
        out["violations"].append({"msg": f"{label}: restored state differs from the saved one: " + "; ".join(d[:4]), "witness": dict(wit, n_differences=len(d))})
    else:
        # reading a checkpoint does not use it up: a second restore (another process, a retry) gives the same state again
        try:
            with quiet():
                again = S.snapshot(Calibrator.restore_from_checkpoint(str(folder), model))
            c["second_restores_of_the_same_folder"] = c.get("second_restores_of_the_same_folder", 0) + 1
            d2 = S.diff(live, again)
            if d2:
                out["violations"].append({"msg": f"{label}: a second restore from the same folder differs from the first: " + "; ".join(d2[:3]), "witness": wit})
        except Exception as e:  # noqa: BLE001
            out["violations"].append({"msg": f"{label}: the folder could be restored once but not twice: {type(e).__name__}: {str(e)[:160]}", "witness": wit})
    return rest


def run_cal(desc, ctx, out):
    from black_it.calibrator import Calibrator

    rng = rng_for(desc["seed"], 4, 0, desc["i"])
    c = out["counters"]
    i = desc["i"]
    rl = i % 8 == 7
    heavy = i % 5 == 0
    many = i % 6 == 2   # a dozen parameters: column order and naming beyond a single digit
    cfg = CG.gen_config(rng, kinds=(G.CHEAP if many else None) if (heavy or many) else G.CHEAP + ["CORS"], scheduler="rl" if rl else None,
                        n_samplers=int(rng.integers(1, 5)), max_bs=3, params=int(rng.integers(11, 14)) if many else None)
    if many:
        c["many_parameter_cases"] = c.get("many_parameter_cases", 0) + 1
    if i % 10 == 6 and len(cfg["lineup"]) >= 3 and not rl:
        # one sampler object at two positions of the line-up: the restored line-up has ONE object there too
        cfg["lineup"][2] = dict(cfg["lineup"][0])
        cfg["alias"] = [[0, 2]]
        c["lineups_with_one_object_twice"] = c.get("lineups_with_one_object_twice", 0) + 1
    if i % 4 == 1:
        cfg["conv"] = int(rng.choice([0, 0, 3, 9]))   # includes the legal value 0 ("stop when the loss rounds to 0")
        c["convergence_precision_set"] = c.get("convergence_precision_set", 0) + 1
        if cfg["conv"] == 0:
            c["convergence_precision_zero"] = c.get("convergence_precision_zero", 0) + 1
    if i % 9 == 3 and not heavy:
        cfg["real_nonfinite"] = [[int(rng.integers(0, 50)), int(rng.integers(0, 3)), str(rng.choice(["nan", "inf", "-inf"]))] for _ in range(int(rng.integers(1, 3)))]
        c["real_data_with_nonfinite_entries"] = c.get("real_data_with_nonfinite_entries", 0) + 1
    nofolder = i % 7 == 4 and not rl   # no saving folder: only explicit create_checkpoint() calls write anything
    folder = ctx.scratch() / "ck"
    relative = i % 3 == 1
    if relative:
        # the folder is named the way the documentation does (relative, not canonical); the case runs with the scratch dir as cwd
        import os

        os.chdir(folder.parent)
        folder = type(folder)("ck")
        c["relative_folder_cases"] = c.get("relative_folder_cases", 0) + 1
    model = CG.model_for(cfg)
    wit = {"config": cfg, "ops": [], "folder_given_as": "relative path" if relative else "absolute path"}
    pre = str(rng.choice(["empty", "empty", "other_more", "other_fewer", "other_shape", "other_same", "same_config_other_model", "same_config_other_model"]))
    if pre == "same_config_other_model":
        # an earlier, shorter attempt with the same configuration and seed whose model behaved differently in part of the space:
        # some stored series rows coincide with the new run's, others do not
        from vlib import models as MM

        try:
            with quiet():
                other = CG.build_calibrator(cfg, folder=str(folder), model=MM.ALT[cfg["D"]])
                other.calibrate(int(rng.integers(1, 3)))
            c["prepopulated_folder"] = c.get("prepopulated_folder", 0) + 1
            c["prepopulated_same_config_other_model"] = c.get("prepopulated_same_config_other_model", 0) + 1
        except Exception:  # noqa: BLE001
            pre = "empty"
    elif pre != "empty":
        cfg2 = CG.gen_config(rng, kinds=G.HISTORY_FREE, n_samplers=2, max_bs=3)
        if pre in ("other_more", "other_fewer", "other_same"):
            cfg2.update(D=cfg["D"], N=cfg["N"], E=cfg["E"], sim_length_differs=False)
            cfg2["loss"] = {"kind": "minkowski", "p": 2, "weights": None, "filters": None}
        nb2 = {"other_more": 9, "other_fewer": 1, "other_shape": 2, "other_same": 2}[pre]
        try:
            with quiet():
                other = CG.build_calibrator(cfg2, folder=str(folder))
                other.calibrate(nb2)
            c["prepopulated_folder"] = c.get("prepopulated_folder", 0) + 1
        except Exception as e:  # noqa: BLE001
            pre = "empty"
    wit["folder_before"] = pre
    if rl:
        c["rl_scheduler"] = c.get("rl_scheduler", 0) + 1
    if nofolder:
        c["calibrators_without_saving_folder"] = c.get("calibrators_without_saving_folder", 0) + 1
        wit["saving_folder"] = None
    try:
        with quiet():
            cal = CG.build_calibrator(cfg, folder=None if nofolder else str(folder))
    except Exception as e:  # noqa: BLE001
        out["violations"].append({"msg": f"constructor raised {type(e).__name__}: {e}", "witness": wit})
        return
    nops = int(rng.integers(2, 6))
    batches = 0
    first = True
    for _ in range(nops):
        op = str(rng.choice(["calibrate", "calibrate", "calibrate", "checkpoint", "checkpoint", "restore", "set_samplers"]))
        if nofolder and op == "restore":
            op = "checkpoint"
        if first and rng.random() < 0.15:
            op = "checkpoint"  # the no-batch-yet state
        first = False
        if op == "calibrate":
            n = int(rng.integers(1, 4))
            wit["ops"].append(["calibrate", n])
            try:
                with quiet(), G.time_limit(G.LIMIT):
                    cal.calibrate(n)
            except G.Timeout:
                return
            except Exception as e:  # noqa: BLE001
                msg = f"{type(e).__name__}: {str(e)[:160]}"
                if rl and isinstance(e, TypeError) and "pickle" in str(e):
                    out["violations"].append({"msg": f"calibrate() with an RL scheduler and a saving folder raised {msg}", "witness": wit,
                                              "mechanism": "rl-scheduler-not-checkpointable"})
                    _cleanup_threads(cal)
                else:
                    c["run_ended_by_exception"] = c.get("run_ended_by_exception", 0) + 1
                return
            batches += n
            if nofolder:
                if any(folder.parent.glob("ck/*")) and pre == "empty":
                    out["violations"].append({"msg": "a calibrator without saving folder wrote files during calibrate()", "witness": wit})
                continue
            r = compare_restore(cal, folder, model, out, wit, f"after calibrate({n}) [folder held: {pre}]")
            if batches >= 2 and (pre != "empty" or any(s in ("decimal", "nondividing", "tiny", "offset") for s in cfg["space"]["styles"])):
                out["nontrivial"].append(jhash(wit))
        elif op == "checkpoint":
            f2 = ctx.scratch() / "explicit"
            dirty = batches >= 1 and rng.random() < 0.7
            if dirty:
                # the target already holds a complete checkpoint of an unrelated experiment (other loss, line-up, shapes)
                try:
                    cfg3 = CG.gen_config(rng, kinds=G.HISTORY_FREE, n_samplers=2, max_bs=2)
                    with quiet():
                        o3 = CG.build_calibrator(cfg3, folder=str(f2))
                        o3.calibrate(int(rng.integers(1, 4)))
                    c["explicit_checkpoint_into_used_folder"] = c.get("explicit_checkpoint_into_used_folder", 0) + 1
                except Exception:  # noqa: BLE001
                    dirty = False
            wit["ops"].append(["create_checkpoint", "folder of another experiment" if dirty else "empty folder"])
            if batches == 0:
                c["no_batch_yet"] = c.get("no_batch_yet", 0) + 1
            try:
                with quiet():
                    cal.create_checkpoint(str(f2))
            except Exception as e:  # noqa: BLE001
                v = {"msg": f"create_checkpoint raised {type(e).__name__}: {str(e)[:160]}", "witness": wit}
                if rl and isinstance(e, TypeError) and "pickle" in str(e):
                    v["mechanism"] = "rl-scheduler-not-checkpointable"
                out["violations"].append(v)
                return
            r = compare_restore(cal, f2, model, out, wit, "after create_checkpoint" + (" with no batch yet" if batches == 0 else ""))
            if r is not None and batches == 0 and rng.random() < 0.7 and not cfg.get("real_nonfinite"):
                # the restored no-batch calibrator must be usable
                try:
                    with quiet():
                        r.saving_folder = None
                        r.calibrate(1)
                except Exception as e:  # noqa: BLE001
                    out["violations"].append({"msg": f"calibrator restored from a no-batch checkpoint cannot calibrate: {type(e).__name__}: {str(e)[:120]}", "witness": wit})
        elif op == "restore" and batches > 0:
            wit["ops"].append(["restore_and_continue"])
            try:
                with quiet():
                    cal = Calibrator.restore_from_checkpoint(str(folder), model)
            except Exception as e:  # noqa: BLE001
                out["violations"].append({"msg": f"restore raised {type(e).__name__}: {str(e)[:160]}", "witness": wit})
                return
        elif op == "set_samplers" and not rl:
            new = G.gen_lineup(rng, n=int(rng.integers(1, 4)), kinds=G.HISTORY_FREE + (["BestBatch"] if batches > 0 else []), max_bs=2)
            wit["ops"].append(["set_samplers", [d["kind"] for d in new]])
            with quiet():
                cal.set_samplers([G.build_sampler(d) for d in new])
            c["after_set_samplers"] = c.get("after_set_samplers", 0) + 1
    if desc["i"] < 2:
        out["sample"] = {"ops": wit["ops"], "folder_before": pre, "lineup": [d["kind"] for d in cfg["lineup"]], "scheduler": cfg["scheduler"]}


def _cleanup_threads(cal):
    """An RL scheduler whose calibrate() raised leaves its agent thread blocked (C11's subject); release it so the shard can exit."""
    try:
        s = cal.scheduler
        if getattr(s, "_agent_thread", None) is not None and s._agent_thread.is_alive():
            s._stopped = True
            s._out_queue.put(None)
            s._agent_thread.join(timeout=5)
    except Exception:  # noqa: BLE001
        pass


def run_conv(desc, ctx, out):
    """Convergence stop: the folder must hold the state calibrate() returned with."""
    from black_it.calibrator import Calibrator
    from black_it.loss_functions.minkowski import MinkowskiLoss
    from black_it.samplers.random_uniform import RandomUniformSampler

    rng = rng_for(desc["seed"], 4, 2, desc["i"])
    c = out["counters"]
    n = int(rng.integers(3, 7))
    at = int(rng.integers(0, n - 1))
    vals = [float(rng.uniform(0.5, 2.0)) for _ in range(n)]
    vals[at] = 1e-9
    verbose = bool(desc["i"] % 2)
    model = M.Scripted(vals)
    folder = ctx.scratch() / "ck"
    with quiet():
        cal = Calibrator(loss_function=MinkowskiLoss(p=1), real_data=np.zeros((1, 1)), model=model, parameters_bounds=[[0.0], [1.0]],
                         parameters_precision=[0.001], ensemble_size=1, samplers=[RandomUniformSampler(1)], convergence_precision=3,
                         verbose=verbose, saving_folder=str(folder), random_state=int(rng.integers(2**31)), n_jobs=1)
        cal.calibrate(n)
    c["convergence_stop"] = c.get("convergence_stop", 0) + 1
    out["evals"] += 1
    wit = {"scripted_losses": vals, "requested": n, "verbose": verbose, "batches_run": int(cal.current_batch_index)}
    compare_restore(cal, folder, model, out, wit, f"after a calibrate({n}) that met the convergence criterion at batch {at} (verbose={verbose})")


def run_tuple(desc, ctx, out):
    from black_it.utils import json_pandas_checkpointing as jp
    from black_it.utils import sqlite3_checkpointing as sq

    rng = rng_for(desc["seed"], 4, 1, desc["i"])
    c = out["counters"]
    for rep in range(4):
        P, D, E, N = (int(x) for x in (rng.integers(1, 5) if rep % 2 else rng.integers(1, 14), rng.integers(1, 3), rng.integers(1, 3), rng.integers(1, 6)))
        rows = int(rng.integers(0, 12))
        backend = "sqlite" if rep % 2 else "json"

        def state(rows, shape=(E, N, D), p=P):
            params = stress_floats(rng, rows * p).reshape(rows, p)
            losses = stress_floats(rng, rows)
            if rows and rng.random() < 0.3:
                losses[int(rng.integers(rows))] = float(rng.choice([np.inf, -np.inf]))
            series = stress_floats(rng, rows * int(np.prod(shape))).reshape((rows, *shape))
            g = np.random.default_rng(int(rng.integers(2**31)))
            g.random(int(rng.integers(0, 5)))
            return dict(
                parameters_bounds=np.array([stress_floats(rng, p) - 1e3, stress_floats(rng, p) + 1e3]), parameters_precision=np.abs(stress_floats(rng, p)) + 1e-9,
                real_data=stress_floats(rng, shape[1] * shape[2]).reshape(shape[1], shape[2]), ensemble_size=shape[0], N=shape[1], D=shape[2],
                convergence_precision=None if rng.random() < 0.5 else int(rng.integers(0, 6)), verbose=bool(rng.random() < 0.5),
                saving_file=None if rng.random() < 0.3 else str(rng.choice(["some/folder", "20240927", "0012", "3.10", "1e5", " run 7 ", "résultats/série-3", "-0", "nan", "True", "0x1F", "a'b\"c"])), initial_random_seed=None if rng.random() < 0.2 else int(rng.integers(2**31)),
                random_generator_state=g.bit_generator.state, model_name=str(rng.choice(["m", "model", "SIR_w_breaks", "1", "007", "2.50", "modèle"])), scheduler=["scheduler-stand-in", int(rng.integers(100))],
                loss_function={"loss-stand-in": float(rng.random())}, current_batch_index=int(rng.integers(0, 50)), n_sampled_params=rows,
                n_jobs=int(rng.integers(1, 5)), params_samp=params, losses_samp=losses, series_samp=series,
                batch_num_samp=np.sort(rng.integers(0, 6, size=rows)), method_samp=rng.integers(0, 4, size=rows),
            )

        folder = ctx.scratch() / backend
        pre = str(rng.choice(["empty", "more_rows", "fewer_rows", "same_rows", "other_shape"]))
        if backend == "sqlite" and pre == "other_shape":
            pre = "same_rows"
        st = state(rows)
        order_json = ["parameters_bounds", "parameters_precision", "real_data", "ensemble_size", "N", "D", "convergence_precision", "verbose", "saving_file",
                      "initial_random_seed", "random_generator_state", "model_name", "scheduler", "loss_function", "current_batch_index", "n_sampled_params",
                      "n_jobs", "params_samp", "losses_samp", "series_samp", "batch_num_samp", "method_samp"]
        order_sql = [k for k in order_json if k not in ("n_sampled_params", "n_jobs")]

        def save(s):
            if backend == "json":
                jp.save_calibrator_state(folder, *[s[k] for k in order_json])
            else:
                sq.save_calibrator_state(folder, *[s[k] for k in order_sql])

        wit = {"backend": backend, "folder_before": pre, "rows": rows, "P": P, "shape": [E, N, D]}
        try:
            with quiet():
                if pre != "empty":
                    r0 = {"more_rows": rows + 5, "fewer_rows": max(0, rows - 2), "same_rows": rows, "other_shape": rows + 1}[pre]
                    save(state(r0, (E + 1, N, D + 1) if pre == "other_shape" else (E, N, D), P if pre != "other_shape" else P + 1))
                    c["prepopulated_folder"] = c.get("prepopulated_folder", 0) + 1
                save(st)
                got = jp.load_calibrator_state(folder, 0) if backend == "json" else sq.load_calibrator_state(folder)
        except Exception as e:  # noqa: BLE001
            out["violations"].append({"msg": f"{backend}: save/load raised {type(e).__name__}: {str(e)[:200]} (folder held: {pre})", "witness": wit})
            continue
        c[f"tuple_roundtrips_{backend}"] = c.get(f"tuple_roundtrips_{backend}", 0) + 1
        out["evals"] += 1
        order = order_json if backend == "json" else order_sql
        bad = []
        for k, v in zip(order, got):
            exp = st[k]
            if k in ("params_samp", "losses_samp", "series_samp", "batch_num_samp", "method_samp"):
                a, b = np.asarray(exp), np.asarray(v)
                if k == "params_samp" and rows == 0:
                    a = a.reshape(b.shape) if a.size == b.size else a
                if a.shape != b.shape or a.dtype != b.dtype or a.tobytes() != b.tobytes():
                    nd = int(np.sum(~((a == b) | ((a != a) & (b != b))))) if a.shape == b.shape and a.dtype == b.dtype else -1
                    bad.append(f"{k}: saved {a.dtype}{list(a.shape)} loaded {b.dtype}{list(b.shape)}" + (f", {nd} elements differ" if nd >= 0 else ""))
            elif k in ("parameters_bounds", "parameters_precision", "real_data"):
                a, b = np.asarray(exp, dtype=float), np.asarray(v, dtype=float)
                if a.shape != b.shape or a.tobytes() != b.tobytes():
                    bad.append(f"{k}: values differ after load")
            else:
                if S.diff(S.canon(exp), S.canon(v)):
                    bad.append(f"{k}: {exp!r} -> {v!r}"[:160])
        if bad:
            out["violations"].append({"msg": f"{backend} back-end, folder held {pre}: " + "; ".join(bad[:4]), "witness": wit})
        if rows >= 2:
            out["nontrivial"].append(jhash([wit, desc["i"], rep]))


def run_case(desc, ctx):
    import os

    out = {"violations": [], "counters": {}, "evals": 0, "nontrivial": []}
    cwd = os.getcwd()
    try:
        {"cal": run_cal, "tuple": run_tuple, "conv": run_conv}[desc["kind"]](desc, ctx, out)
    finally:
        os.chdir(cwd)
    return out
