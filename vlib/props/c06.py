"""C06 - an interrupted checkpoint save is never restored as a silent hybrid (crash-point enumeration)."""
from __future__ import annotations

import os
import pickle
import re
import shutil
import subprocess
import sys
from pathlib import Path

import numpy as np

from vlib import calgen as CG
from vlib import gen as G
from vlib import state as S
from vlib.core import Inconclusive, jhash, quiet, repo_path, rng_for, VERIF

ID = "C06"
LEVEL = "fault_enumeration"
RULE = (
    "A state pair (P = previous complete checkpoint, N = the checkpoint being written) is produced by a real calibrator "
    "(N extends P by one batch; or P belongs to another run with the same or a different number of rows; or there is no P). "
    "Crash points enumerated on top of each P: (trunc) the real save of N over a copy of P is run once under a LINE callback on "
    "the checkpointing module that records every distinct on-disk folder state (so write order, temporary files and renames are "
    "observed, not assumed); every recorded state is a crash state (death at a statement boundary), and for every file that "
    "changes in a step that file is cut at byte offsets {0, 1, all offsets for small files, seeded offsets + line boundaries "
    "+-1, len-1, len} with the files changed earlier in the step new and everything else as before the step; a step in which "
    "one name disappears and its bytes appear under another name is an atomic rename (no intermediate state); "
    "(line) an exception raised at every LINE event of save_calibrator_state (for every second point the previous checkpoint was saved into the same folder by the same process rather than copied there) of "
    "both back-ends (sys.monitoring); (kill) SIGKILL injected by strace at every openat/write/pwrite64/ftruncate/rename/"
    "unlink/fsync touching a checkpoint file during a real save in a child process, both back-ends; (enospc) the same points "
    "with error=ENOSPC. Oracle: the folder is restored (Calibrator.restore_from_checkpoint and load_calibrator_state) and "
    "classified error / equals P / equals N / hybrid by canonical-state comparison; JSON back-end: hybrid is the violation; "
    "SQLite after a failed save with P present: anything but P or N is a violation. Non-trivial = P exists and differs from "
    "N; distinct by (engine, backend, file, syscall/line/offset, kind of P). exhaustive refers to the enumerated points of the "
    "saves performed."
    ' Previous-checkpoint kinds also include one taken before the first batch and one after which the line-up got a sampler of a new class (the two checkpoints then differ in their id table).'
)
ASSUMPTIONS = [
    "byte-prefix model for partially written files; page-level reordering by the OS is not modelled",
    "strace injection needs ptrace (checked at run time; without it the kill/enospc engines are reported as unavailable and the check is inconclusive)",
]
REQUIRED_COUNTERS = {"line_points_with_previous_checkpoint_saved_in_process": 40, "points_trunc": 100, "points_line_json": 30, "points_line_sqlite": 20, "points_kill": 20, "points_enospc": 10,
                     "classified_error": 50, "classified_P_or_N": 20, "states": 4}
SHARDS = {"quick": 16, "thorough": 16}
SHARD_WATCHDOG = {"quick": 1500, "thorough": 10800}

FILES = ["calibration_params.json", "scheduler_pickled.pickle", "loss_function_pickled.pickle", "calibration_results.csv", "series_samp.h5"]
PKINDS = ["same_run", "other_run_same_rows", "other_run_diff_rows", "none", "same_run_no_batch", "same_run_lineup_replaced"]
SYSCALLS = ["openat", "write", "pwrite64", "ftruncate", "rename", "unlink", "fsync", "fdatasync", "pwritev", "lseek"]


def gen_cases(tier, seed):
    cases = []
    nst = 2 if tier == "quick" else 6
    for st in range(nst):
        for pk in PKINDS:
            cases.append({"engine": "trunc", "backend": "json", "pkind": pk, "state": st, "seed": seed, "tier": tier})
            cases.append({"engine": "line", "backend": "json", "pkind": pk, "state": st, "seed": seed, "tier": tier})
            if pk in ("same_run", "none", "other_run_same_rows", "same_run_no_batch", "same_run_lineup_replaced"):
                cases.append({"engine": "line", "backend": "sqlite", "pkind": pk, "state": st, "seed": seed, "tier": tier})
    for part in range(4):   # a save that appends several MiB of series in one go (process death only)
        cases.append({"engine": "kill", "backend": "json", "pkind": "same_run", "state": 0, "seed": seed, "tier": tier, "part": part, "parts": 4, "big": True})
    for st in range(1 if tier == "quick" else 3):
        for pk in (["same_run", "other_run_same_rows", "same_run_no_batch", "same_run_lineup_replaced"] if tier == "quick" else PKINDS):
            for inj in ("kill", "enospc"):
                for backend in ("json", "sqlite"):
                    if backend == "sqlite" and pk == "other_run_diff_rows":
                        continue
                    parts = 4 if backend == "json" else 2
                    for part in range(parts):
                        cases.append({"engine": inj, "backend": backend, "pkind": pk, "state": st, "seed": seed, "tier": tier, "part": part, "parts": parts})
    return cases


def classify(v):
    return v.get("mechanism")


# --------------------------------------------------------------------------- states
def make_states(desc, ctx):
    """Run real calibrators; return dict with save-args and folders for P and N (JSON files written by the library itself)."""
    import black_it.calibrator as calmod

    rng = rng_for(desc["seed"], 6, desc["state"], PKINDS.index(desc["pkind"]))
    cfg = CG.gen_config(rng, kinds=["Halton", "RandomUniform", "BestBatch"], n_samplers=2, max_bs=2, loss_kinds=["minkowski"], max_params=2, ensemble=2,
                        scheduler="list", max_points=30)
    cfg["loss"] = {"kind": "minkowski", "p": 2, "weights": None, "filters": None}
    cfg["lineup"][0]["kind"] = "Halton"
    for d in cfg["lineup"]:
        d["batch_size"] = 2 if desc["state"] % 2 else 1
    if desc.get("big"):
        # one save appends several MiB of series (4 rows of 1.6 MB): the HDF5 append is then many writes, not one
        cfg.update(N=100000, D=1, E=2, sim_length_differs=False)
        for d in cfg["lineup"]:
            d["batch_size"] = 4
    base = ctx.scratch()
    captured = []
    orig = calmod.save_calibrator_state

    def spy(*a, **k):
        import copy

        # a snapshot: the scheduler and the arrays handed to the save are live objects that the run keeps advancing
        captured.append(copy.deepcopy((a[1:], k)))
        return orig(*a, **k)

    calmod.save_calibrator_state = spy
    try:
        with quiet():
            cal = CG.build_calibrator(cfg)
            dirP = base / "P"
            dirN = base / "N"
            pk = desc["pkind"]
            if pk == "same_run_no_batch":
                # the previous checkpoint was taken BEFORE the first batch (an empty history); the interrupted save is the first batch's
                cal.create_checkpoint(dirP)
                argsP = captured[-1]
            else:
                cal.calibrate(2)
            if pk == "same_run_no_batch":
                pass
            elif pk in ("same_run", "same_run_lineup_replaced"):
                cal.create_checkpoint(dirP)
                argsP = captured[-1]
                if pk == "same_run_lineup_replaced":
                    # between the two checkpoints the line-up gets a sampler of a class not seen before: the new checkpoint's id table
                    # (and scheduler) differ from the previous one's
                    cal.set_samplers([*cal.scheduler.samplers, G.build_sampler(G.gen_sampler_desc(rng, "RSequence", batch_size=cfg["lineup"][0]["batch_size"]))])
            elif pk != "none":
                cfg2 = dict(cfg, seed=cfg["seed"] + 17, real_seed=cfg["real_seed"])
                other = CG.build_calibrator(cfg2)
                rows_n = int(cal.n_sampled_params) + cfg["lineup"][0]["batch_size"]
                other.calibrate(1)
                while pk == "other_run_same_rows" and other.n_sampled_params < rows_n:
                    other.calibrate(1)
                if pk == "other_run_diff_rows":
                    other.calibrate(3)
                other.create_checkpoint(dirP)
                argsP = captured[-1]
                if pk == "other_run_same_rows" and other.n_sampled_params != rows_n:
                    raise Inconclusive(f"could not build another run with {rows_n} rows (got {other.n_sampled_params})")
            else:
                dirP.mkdir()
                argsP = None
            cal.calibrate(1)
            shutil.copytree(dirP, dirN)
            cal.create_checkpoint(dirN)          # N written on top of a copy of P, as a real save would
            argsN = captured[-1]
    finally:
        calmod.save_calibrator_state = orig
    return {"cfg": cfg, "P": dirP, "N": dirN, "argsP": argsP, "argsN": argsN, "model": CG.model_for(cfg), "base": base}


def sqlite_args(args):
    """Argument tuple of the SQLite save from the JSON save's arguments (drops n_sampled_params, n_jobs, id table)."""
    a, k = args
    a = list(a)
    return tuple(a[:15] + a[17:22])


class Judge:
    """Classifies a folder against the complete checkpoints P and N."""

    def __init__(self, st, backend):
        from black_it.calibrator import Calibrator
        from black_it.utils import json_pandas_checkpointing as jp
        from black_it.utils import sqlite3_checkpointing as sq

        self.backend, self.st, self.Cal, self.jp, self.sq = backend, st, Calibrator, jp, sq
        self.ref = {}
        if backend == "json":
            for name in ("P", "N"):
                if name == "P" and st["argsP"] is None:
                    continue
                with quiet():
                    self.ref[name] = (S.canon(jp.load_calibrator_state(st[name], 0)), S.snapshot(Calibrator.restore_from_checkpoint(str(st[name]), st["model"])))
        else:
            base = st["base"]
            for name in ("P", "N"):
                if st["args" + name] is None:
                    continue
                d = base / f"sq{name}"
                if name == "N" and (base / "sqP").exists():
                    shutil.copytree(base / "sqP", d)
                with quiet():
                    sq.save_calibrator_state(d, *sqlite_args(st["args" + name]))
                    self.ref[name] = (S.canon(sq.load_calibrator_state(d)), None)
            st["sqP"], st["sqN"] = base / "sqP", base / "sqN"

    def classify(self, folder):
        """Return (class, detail): class in error/P/N/hybrid."""
        try:
            with quiet():
                if self.backend == "json":
                    t = S.canon(self.jp.load_calibrator_state(folder, 0))
                else:
                    t = S.canon(self.sq.load_calibrator_state(folder))
        except BaseException as e:  # noqa: BLE001
            return "error", f"{type(e).__name__}: {str(e)[:80]}"
        for name, (ct, cs) in self.ref.items():
            if not S.diff(ct, t):
                if self.backend == "json":
                    try:
                        with quiet():
                            snap = S.snapshot(self.Cal.restore_from_checkpoint(str(folder), self.st["model"]))
                    except BaseException as e:  # noqa: BLE001
                        return "error", f"restore: {type(e).__name__}: {str(e)[:80]}"
                    if S.diff(cs, snap):
                        return "hybrid", f"load equals {name} but the restored calibrator does not: " + "; ".join(S.diff(cs, snap)[:2])
                return name, ""
        det = []
        for name, (ct, cs) in self.ref.items():
            det.append(f"vs {name}: " + "; ".join(x.split(":")[0] for x in S.diff(ct, t)[:6]))
        if self.backend == "json":
            try:
                with quiet():
                    self.Cal.restore_from_checkpoint(str(folder), self.st["model"])
            except BaseException as e:  # noqa: BLE001
                return "error", f"restore: {type(e).__name__}: {str(e)[:80]}"
        return "hybrid", " | ".join(det)

    def window(self, folder):
        """Status of each JSON-backend file relative to P and N: old/new/partial/missing/same (P and N identical)."""
        out = []
        for f in FILES:
            p = folder / f
            if not p.exists():
                out.append("missing")
                continue
            b = p.read_bytes()
            bn = (self.st["N"] / f).read_bytes()
            bp = (self.st["P"] / f).read_bytes() if (self.st["P"] / f).exists() else None
            if bp is not None and bp == bn and b == bn:
                out.append("same")
            elif b == bn:
                out.append("new")
            elif bp is not None and b == bp:
                out.append("old")
            else:
                out.append("partial")
        return out


def verdict(judge, folder, desc, point, out, save_outcome=None):
    """Classify one crash state and turn it into counters / violations."""
    c = out["counters"]
    cls, det = judge.classify(folder)
    c[f"points_{desc['engine']}" + (f"_{desc['backend']}" if desc["engine"] == "line" else "")] = c.get(f"points_{desc['engine']}" + (f"_{desc['backend']}" if desc["engine"] == "line" else ""), 0) + 1
    out["evals"] += 1
    key = "classified_error" if cls == "error" else "classified_P_or_N" if cls in ("P", "N") else "classified_hybrid"
    c[key] = c.get(key, 0) + 1
    if desc["pkind"] != "none":
        out["nontrivial"].append(jhash([desc["engine"], desc["backend"], desc["pkind"], desc["state"], point]))
    wit = {"engine": desc["engine"], "backend": desc["backend"], "previous_checkpoint": desc["pkind"], "crash_point": point, "restore": cls, "detail": det,
           "save_outcome": save_outcome}
    if desc["backend"] == "json":
        win = judge.window(folder)
        wit["window"] = dict(zip(FILES, win))
        if cls == "hybrid":
            by = {"trunc": "truncation", "line": "exception", "enospc": "exception", "kill": "death"}[desc["engine"]]
            mech = "json-torn:" + ",".join(win) + "|P=" + desc["pkind"] + "|by=" + by
            out["violations"].append({"msg": f"JSON/CSV/HDF5 back-end: crash at {point} left files {dict(zip(['params.json', 'scheduler.pickle', 'loss.pickle', 'results.csv', 'series.h5'], win))} over a previous checkpoint "
                                             f"'{desc['pkind']}'; restore succeeds and returns neither P nor N ({det[:200]})", "witness": wit, "mechanism": mech})
    else:
        # transactional back-end: a save that did not complete must leave P loadable (or N if it did commit)
        has_p = "P" in judge.ref
        if cls == "hybrid" or (cls == "error" and has_p and save_outcome != "saved"):
            out["violations"].append({"msg": f"SQLite back-end: after a save interrupted at {point} over a previous checkpoint '{desc['pkind']}' the load gives {cls} ({det[:160]}) "
                                             f"instead of the previous or the new checkpoint", "witness": wit})
        if cls == "error" and not has_p:
            pass  # nothing to preserve
    return cls


def fresh_copy(st, ctx, backend):
    d = ctx.scratch() / "ck"
    src = st["P"] if backend == "json" else st.get("sqP")
    if src is not None and Path(src).exists():
        shutil.copytree(src, d)
    else:
        d.mkdir(parents=True)
    return d


# --------------------------------------------------------------------------- engines
def observe_save_steps(st, ctx):
    """Run the real JSON-back-end save of N on top of a copy of P and record the sequence of on-disk folder states.

    A LINE callback (sys.monitoring) on every function of the checkpointing module looks at the folder before each statement;
    whenever a file's (mtime, size) changed, appeared or disappeared the whole folder is read.  The result is the list of
    distinct consecutive states [(source line about to run, {name: bytes}, {name: (mtime_ns, size)})], from P to N: the write
    order, temporary files and renames are *observed*, not assumed.
    """
    import inspect

    from black_it.utils import json_pandas_checkpointing as mod

    mon = sys.monitoring
    codes = [f.__code__ for f in vars(mod).values() if inspect.isfunction(f) and f.__module__ == mod.__name__]
    d = fresh_copy(st, ctx, "json")
    steps, last = [], [None]

    def look(line):
        sig = {p.name: (p.stat().st_mtime_ns, p.stat().st_size) for p in sorted(d.iterdir()) if p.is_file()}
        if sig != last[0]:
            last[0] = sig
            steps.append((line, {n: (d / n).read_bytes() for n in sig}, sig))

    def on_line(c, line):
        look(line)

    TOOL = 3
    mon.use_tool_id(TOOL, "verif-steps")
    try:
        mon.register_callback(TOOL, mon.events.LINE, on_line)
        for c in codes:
            mon.set_local_events(TOOL, c, mon.events.LINE)
        look(0)
        a, k = st["argsN"]
        with quiet():
            mod.save_calibrator_state(d, *a, **k)
        for c in codes:
            mon.set_local_events(TOOL, c, 0)
        look(-1)
    finally:
        for c in codes:
            mon.set_local_events(TOOL, c, 0)
        mon.register_callback(TOOL, mon.events.LINE, None)
        mon.free_tool_id(TOOL)
    shutil.rmtree(d, ignore_errors=True)
    return steps


def write_folder(d, files):
    d.mkdir(parents=True, exist_ok=True)
    for n, b in files.items():
        (d / n).write_bytes(b)


def engine_trunc(desc, ctx, out):
    """Byte-prefix crash states along the *observed* sequence of file operations of a real save."""
    st = make_states(desc, ctx)
    judge = Judge(st, "json")
    out["counters"]["states"] = 1
    rng = rng_for(desc["seed"], 6, 100 + desc["state"])
    steps = observe_save_steps(st, ctx)
    final = {f: (st["N"] / f).read_bytes() for f in FILES}
    if any(steps[-1][1].get(f) != final[f] for f in FILES):
        raise Inconclusive("the observed save did not end in the complete checkpoint N")
    order = []
    for i, ((_, before, sb), (line, after, sa)) in enumerate(zip(steps, steps[1:])):
        changed = sorted((n for n in after if sb.get(n) != sa[n]), key=lambda n: sa[n][0])
        gone = [n for n in before if n not in after]
        # (A) the state as it is on disk when this statement is about to run (death at a statement boundary)
        if i > 0:
            d = ctx.scratch() / "ck"
            write_folder(d, before)
            verdict(judge, d, desc, f"step {i}: on-disk state before source line {steps[i][0]}", out)
            out["counters"]["points_statement_boundary"] = out["counters"].get("points_statement_boundary", 0) + 1
            shutil.rmtree(d, ignore_errors=True)
        # an atomic rename: one name disappears, its content shows up under another name - no intermediate state
        if gone and len(changed) == 1 and before[gone[0]] == after[changed[0]]:
            order.append(f"rename {gone[0]} -> {changed[0]}")
            out["counters"]["atomic_renames_observed"] = out["counters"].get("atomic_renames_observed", 0) + 1
            continue
        done = {}
        for f in changed:
            order.append(f"write {f}")
            new = after[f]
            n = len(new)
            if n <= (600 if desc["tier"] == "quick" else 4096) and not f.endswith(".h5"):
                offs = set(range(0, n + 1, 1 if desc["tier"] != "quick" else 7))
            else:
                offs = {int(x) for x in rng.integers(0, max(n, 1), size=24 if desc["tier"] == "quick" else 64)}
            offs |= {0, 1, n - 1, n}
            if f.endswith(".csv"):
                for m in re.finditer(rb"\n", new):
                    offs |= {m.start() - 1, m.start(), m.start() + 1}
            for nbytes in sorted(o for o in offs if 0 <= o <= n):
                d = ctx.scratch() / "ck"
                write_folder(d, {**before, **done, f: new[:nbytes]})
                verdict(judge, d, desc, f"step {i}: {f}@{nbytes}/{n}", out)
                shutil.rmtree(d, ignore_errors=True)
            done[f] = new
    out["counters"]["observed_steps"] = out["counters"].get("observed_steps", 0) + len(steps) - 1
    out["write_order"] = order


class Injected(Exception):
    pass


def engine_line(desc, ctx, out):
    mon = sys.monitoring
    st = make_states(desc, ctx)
    judge = Judge(st, desc["backend"])
    out["counters"]["states"] = 1
    if desc["backend"] == "json":
        from black_it.utils import json_pandas_checkpointing as mod

        args, kw = st["argsN"]
    else:
        from black_it.utils import sqlite3_checkpointing as mod

        args, kw = sqlite_args(st["argsN"]), {}
    code = mod.save_calibrator_state.__code__
    TOOL = 3
    state = {"n": 0, "k": None, "line": None}

    def on_line(c, line):
        state["n"] += 1
        if state["k"] is not None and state["n"] == state["k"]:
            state["line"] = line
            raise Injected(f"line {line}")

    mon.use_tool_id(TOOL, "verif-failpoint")
    try:
        mon.register_callback(TOOL, mon.events.LINE, on_line)
        d = fresh_copy(st, ctx, desc["backend"])
        mon.set_local_events(TOOL, code, mon.events.LINE)
        state["n"], state["k"] = 0, None
        with quiet():
            mod.save_calibrator_state(d, *args, **kw)
        K = state["n"]
        mon.set_local_events(TOOL, code, 0)
        shutil.rmtree(d, ignore_errors=True)
        for k in range(1, K + 1):
            d = fresh_copy(st, ctx, desc["backend"])
            if desc["backend"] == "json" and st["argsP"] is not None and k % 2 == 0:
                # the previous checkpoint was written into this very folder by this very process (as a running calibration does),
                # not copied there: anything the module remembers about the folder from that save is in play
                shutil.rmtree(d, ignore_errors=True)
                aP, kP = st["argsP"]
                with quiet():
                    mod.save_calibrator_state(d, *aP, **kP)
                out["counters"]["line_points_with_previous_checkpoint_saved_in_process"] = out["counters"].get("line_points_with_previous_checkpoint_saved_in_process", 0) + 1
            mon.set_local_events(TOOL, code, mon.events.LINE)
            state["n"], state["k"] = 0, k
            outcome = "saved"
            try:
                with quiet():
                    mod.save_calibrator_state(d, *args, **kw)
            except Injected:
                outcome = "raised"
            except BaseException as e:  # noqa: BLE001
                outcome = f"raised {type(e).__name__}"
            finally:
                mon.set_local_events(TOOL, code, 0)
                state["k"] = None
            verdict(judge, d, desc, f"exception at line event {k}/{K} (source line {state['line']})", out, save_outcome=outcome)
            shutil.rmtree(d, ignore_errors=True)
    finally:
        mon.register_callback(TOOL, mon.events.LINE, None)
        mon.free_tool_id(TOOL)


def strace_ok():
    try:
        p = subprocess.run(["strace", "-e", "trace=write", "-o", "/dev/null", "true"], capture_output=True, timeout=20)  # noqa: S603,S607
        return p.returncode == 0
    except Exception:  # noqa: BLE001
        return False


def engine_strace(desc, ctx, out):
    if not strace_ok():
        raise Inconclusive("strace/ptrace not usable in this sandbox: kill/enospc engines unavailable")
    st = make_states(desc, ctx)
    backend = desc["backend"]
    judge = Judge(st, backend)
    out["counters"]["states"] = 1
    work = ctx.scratch()
    argfile = work / "args.pkl"
    args = st["argsN"]
    if backend == "json":
        a, k = args
        payload = tuple(a)  # the id table travels as the optional last positional argument when present
        if k:
            raise Inconclusive("unexpected keyword arguments in the save call")
    else:
        payload = sqlite_args(args)
    argfile.write_bytes(pickle.dumps(payload))
    env = dict(os.environ)
    env["PYTHONPATH"] = f"{repo_path()}:{VERIF}"
    names = FILES if backend == "json" else ["checkpoint.sqlite", "checkpoint.sqlite-journal"]

    def run(folder, inject=None):
        cmd = ["strace", "-f", "-qq", "-o", str(work / "trace.log")]
        for n in names:
            cmd += ["-P", str(folder / n)]
        cmd += ["-e", "trace=" + ",".join(SYSCALLS)]
        if inject:
            cmd += ["-e", "inject=" + inject]
        cmd += [sys.executable, str(VERIF / "vlib" / "c06_child.py"), backend, str(folder), str(argfile)]
        try:
            p = subprocess.run(cmd, env=env, capture_output=True, text=True, timeout=120)  # noqa: S603
        except subprocess.TimeoutExpired:
            return None, ""
        return p.returncode, p.stdout

    # counting run
    d = fresh_copy(st, ctx, backend)
    rc, so = run(d)
    if rc != 0 or "SAVED" not in so:
        raise Inconclusive(f"counting run of the child save failed (rc={rc}, out={so[-200:]})")
    counts = {}
    for line in (work / "trace.log").read_text().splitlines():
        m = re.match(r"^\d+\s+(\w+)\(", line)
        if m and m.group(1) in SYSCALLS:
            counts[m.group(1)] = counts.get(m.group(1), 0) + 1
    shutil.rmtree(d, ignore_errors=True)
    points = [(sc, k) for sc in SYSCALLS for k in range(1, counts.get(sc, 0) + 1) if sc != "lseek"]
    out["counters"]["syscalls_in_clean_save"] = sum(v for s, v in counts.items() if s != "lseek")
    mine = [p for i, p in enumerate(points) if i % desc["parts"] == desc["part"]]
    if desc["tier"] == "quick" and len(mine) > 10:
        mine = mine[:: max(1, len(mine) // 10)]
        out["counters"]["points_sampled_not_all"] = 1
    for sc, k in mine:
        d = fresh_copy(st, ctx, backend)
        inj = f"{sc}:signal=SIGKILL:when={k}" if desc["engine"] == "kill" else f"{sc}:error=ENOSPC:when={k}"
        rc, so = run(d, inj)
        if rc is None:
            out["counters"]["child_timeouts"] = out["counters"].get("child_timeouts", 0) + 1
            continue
        outcome = "saved" if "SAVED" in so else "raised" if "RAISED" in so else "killed"
        if "READY" not in so:
            out["counters"]["child_failed_before_save"] = out["counters"].get("child_failed_before_save", 0) + 1
            continue
        verdict(judge, d, desc, f"{desc['engine']} at {sc} #{k}/{counts[sc]}", out, save_outcome=outcome)
        shutil.rmtree(d, ignore_errors=True)


def run_case(desc, ctx):
    out = {"violations": [], "counters": {}, "evals": 0, "nontrivial": []}
    {"trunc": engine_trunc, "line": engine_line, "kill": engine_strace, "enospc": engine_strace}[desc["engine"]](desc, ctx, out)
    if desc["engine"] in ("kill",) and desc.get("part") == 0 or (desc["engine"] == "trunc" and desc["state"] == 0 and desc["pkind"] == "same_run"):
        out["sample"] = {"engine": desc["engine"], "backend": desc["backend"], "previous_checkpoint": desc["pkind"], "points": out["evals"], "counters": dict(out["counters"]),
                         "observed_write_order": out.pop("write_order", None)}
    out.pop("write_order", None)
    return out


def coverage_extra(merged, tier):
    c = merged["counters"]
    ex = c.get("points_sampled_not_all", 0) == 0 and tier == "thorough"
    return {"exhaustive": ex, "exhaustive_note": "thorough: every syscall / line event / listed byte offset of the saves performed; quick samples offsets and syscall indices"}
