"""C17 - grid snapping maps every value to a nearest grid element (brute-force oracle)."""
from __future__ import annotations

import numpy as np

from vlib.core import rng_for

ID = "C17"
LEVEL = "exploration"
RULE = (
    "case = one sorted grid (uniform/arange, dyadic, geometric, random gaps, with repeated elements; 1-200 elements) "
    "with ~150 probe values (elements, exact mid-points, +-1 ulp around both, end points, far outside, random) and one "
    "digitize_data array of shape (0..50, 1..6); every 4th case adds: linspace and nearly-uniform grids with 1e-9 gaps, integer / float32 "
    "values and data, an integer-typed grid, a one-element grid with integer values, values of 2 and 3 dimensions, grids near the "
    "largest and smallest floats, gaps above 1e154, subnormal grids, and a re-check that arrays returned earlier are unchanged by "
    "later snaps - every 8th/16th case also an array of 4097-20000 values / rows in arbitrary order. Non-trivial sub-case = a probe within 2 ulps of a mid-point or outside "
    "the grid range; distinct by (grid hash, value)."
    ' Also write-protected, zero-stride and empty values, digitize_data on Fortran-ordered / transposed / strided / write-protected / zero-stride data, consecutive-integer grids around zero, snaps under errstate(all=raise), arrays of k*65536+1 values (every 100th case) and four threads snapping at once (every 50th).'
    ' digitize_data is also run on families of nearly equal grids (same length, far from the origin, shifted by a fraction of a step).'
)
ASSUMPTIONS = [
    "distance is judged as computed in float64 (|g - v| rounded); an exactly-nearest element is always accepted",
    "values are finite; grids are sorted ascending",
]
REQUIRED_COUNTERS = {"extra_digitize_nearly_equal_grids": 50, "arrays_of_k_times_65536_plus_1_values": 8, "concurrent_snap_rounds": 15, "extra_values_write_protected": 50, "extra_values_zero_stride_broadcast": 50, "extra_values_empty": 50, "extra_consecutive_integer_grid_around_zero": 50, "extra_errstate_all_raise": 50, "extra_digitize_fortran_order": 50, "extra_digitize_write_protected": 50, "extra_linspace_grid": 50, "extra_integer_values": 50, "extra_values_2d": 50, "extra_values_fortran_order": 50, "extra_values_transposed_view": 50, "extra_grid_near_float_max": 50, "extra_gaps_above_1e154": 50, "extra_earlier_results_rechecked": 50, "large_arrays": 20, "digitize_same_endpoint_families": 30, "values_checked": 1000, "midpoint_probes": 50, "outside_probes": 50, "digitize_columns": 10}
SHARDS = {"quick": 8, "thorough": 16}


def gen_cases(tier, seed):
    n = 1600 if tier == "quick" else 80000
    kinds = ["arange", "dyadic", "geometric", "random", "repeated", "single", "param_grid"]
    return [{"i": i, "kind": kinds[i % len(kinds)], "seed": seed} for i in range(n)]


def make_grid(kind, rng):
    n = int(rng.integers(1, 201))
    if kind == "single":
        return np.array([float(rng.normal() * 10.0 ** rng.integers(-6, 7))])
    if kind == "arange":
        lo = float(rng.normal() * 10.0 ** rng.integers(-3, 4))
        step = float(10.0 ** rng.uniform(-6, 3))
        return np.arange(lo, lo + step * n, step)[: max(n, 1)]
    if kind == "dyadic":  # exact mid-points exist
        lo = float(rng.integers(-64, 64))
        step = 2.0 ** int(rng.integers(-8, 6))
        return lo + step * np.arange(n)
    if kind == "geometric":
        return np.sort(float(rng.choice([-1, 1])) * np.geomspace(10.0 ** rng.integers(-9, 0), 10.0 ** rng.integers(1, 9), n))
    if kind == "random":
        return np.sort(rng.normal(size=n) * 10.0 ** rng.integers(-6, 7))
    if kind == "repeated":
        g = rng.integers(-5, 6, size=n).astype(float)
        return np.sort(g)
    if kind == "param_grid":
        from black_it.search_space import SearchSpace

        lo = float(np.round(rng.normal(), 3))
        prec = float(rng.choice([0.1, 0.01, 0.3, 0.007, 1 / 3]))
        up = lo + prec * float(rng.uniform(1.2, 150))
        return SearchSpace([[lo], [up]], [prec], False).param_grid[0]
    raise ValueError(kind)


def probes(grid, rng):
    mids = (grid[:-1] + grid[1:]) / 2 if len(grid) > 1 else np.array([])
    span = (grid[-1] - grid[0]) if len(grid) > 1 else 1.0
    span = span if span > 0 else 1.0
    parts = [
        grid,
        np.nextafter(grid, np.inf),
        np.nextafter(grid, -np.inf),
        mids,
        np.nextafter(mids, np.inf),
        np.nextafter(mids, -np.inf),
        np.array([grid[0], grid[-1]]),
        grid[0] - span * 10.0 ** rng.uniform(-12, 6, size=8),
        grid[-1] + span * 10.0 ** rng.uniform(-12, 6, size=8),
        rng.uniform(grid[0], grid[-1], size=30) if len(grid) > 1 else rng.normal(size=5) + grid[0],
        np.array([0.0, -0.0, 1e300, -1e300, 5e-324]),
    ]
    tags = np.concatenate([np.full(len(p), i) for i, p in enumerate(parts)])
    vals = np.concatenate(parts)
    if len(vals) > 260:
        sel = np.sort(rng.choice(len(vals), 260, replace=False))
        vals, tags = vals[sel], tags[sel]
    return vals, tags


def judge(grid, values, result):
    """Return list of (index, reason) where the result is not a float-nearest grid element."""
    bad = []
    result = np.asarray(result)
    if result.shape != values.shape:
        return [(-1, f"shape {result.shape} != {values.shape}")]
    if values.size == 0:
        return bad
    with np.errstate(over="ignore", invalid="ignore"):
        dist = np.abs(grid[None, :] - values[:, None])
        dmin = dist.min(axis=1)
        got = np.abs(result - values)
    member = np.isin(result, grid)
    for k in np.where(~member)[0]:
        bad.append((int(k), f"value {values[k]!r} -> {result[k]!r} is not a grid element"))
    for k in np.where(member & ~(got <= dmin))[0]:
        bad.append((int(k), f"value {values[k]!r} -> {result[k]!r} at distance {got[k]!r}, nearest is at {dmin[k]!r}"))
    return bad


def judge_scaled(grid, values, result):
    """judge() for grids / values near the ends of the float range: distances are taken after an exact power-of-two scaling."""
    g, v, r = (np.asarray(x, dtype=np.float64) for x in (grid, values, result))
    m = max(float(np.max(np.abs(g))), float(np.max(np.abs(v))) if v.size else 0.0)
    if m > 1e300:
        return judge_members(g, v, r, 2.0**-12)
    if 0 < m < 1e-290:
        return judge_members(g, v, r, 2.0**200)
    return judge(g, v, r)


def judge_members(g, v, r, k):
    bad = []
    member = np.isin(r, g)
    for i in np.where(~member)[0]:
        bad.append((int(i), f"value {v[i]!r} -> {r[i]!r} is not a grid element"))
    dist = np.abs(g[None, :] * k - v[:, None] * k)
    dmin = dist.min(axis=1)
    got = np.abs(r * k - v * k)
    for i in np.where(member & ~(got <= dmin))[0]:
        bad.append((int(i), f"value {v[i]!r} -> {r[i]!r}, a nearer grid element exists"))
    return bad


def extras(rng, out, get_closest, digitize_data):
    """Input classes beyond float64 vectors on ordinary grids: other dtypes and shapes, grids at the ends of the float range,
    linspace / nearly-uniform grids, and the stability of results that were returned earlier."""
    c = out["counters"]

    def cnt(k, n=1):
        c[k] = c.get(k, 0) + n

    def run(label, grid, values, judge_fn=judge_scaled, wit=None):
        try:
            res = np.asarray(get_closest(grid.copy(), values.copy(order="K") if isinstance(values, np.ndarray) else values))
        except Exception as e:  # noqa: BLE001
            out["violations"].append({"msg": f"get_closest ({label}) raised {type(e).__name__}: {e}", "witness": {"grid": grid, "values": values}})
            return None
        cnt(f"extra_{label}")
        out["evals"] += int(np.size(values))
        if res.shape != np.shape(values):
            out["violations"].append({"msg": f"get_closest ({label}): result shape {res.shape} for values of shape {np.shape(values)}", "witness": {"grid": grid}})
            return res
        for k, why in judge_fn(np.asarray(grid, dtype=np.float64), np.asarray(values, dtype=np.float64).ravel(), np.asarray(res, dtype=np.float64).ravel())[:2]:
            out["violations"].append({"msg": f"get_closest ({label}): " + why, "witness": wit or {"grid": grid, "values_dtype": str(np.asarray(values).dtype), "values_shape": list(np.shape(values))}})
        return res

    n = int(rng.integers(2, 60))
    lo, up = sorted(rng.normal(size=2) * 10.0 ** rng.integers(-3, 4))
    # (a) linspace grids (elements are not lo + k*step bit for bit) and nearly uniform grids with tiny gaps
    g = np.linspace(lo, up + abs(up) * 0.1 + 1e-9, n)
    v, _ = probes(g, rng)
    run("linspace_grid", g, v)
    g2 = np.cumsum(np.concatenate([[float(rng.normal())], rng.choice([1e-9, 2e-9, 7e-9, 1e-8], size=n - 1)]))
    v2, _ = probes(g2, rng)
    run("tiny_uneven_gaps", g2, v2)
    # (b) other dtypes: integer / float32 values on a float grid, an integer-typed grid with non-integer values
    gi = np.sort(rng.choice(np.arange(-20, 21), size=min(n, 30), replace=False)).astype(float) * float(rng.choice([1.0, 0.5, 0.3]))
    vi = rng.integers(-25, 26, size=40)
    run("integer_values", gi, vi.astype(np.int64))
    run("float32_values", gi, (rng.normal(size=40) * 8).astype(np.float32))
    run("integer_typed_grid", np.sort(rng.choice(np.arange(-20, 21), size=12, replace=False)).astype(np.int64), rng.normal(size=40) * 12)
    run("one_element_grid_integer_values", np.array([float(np.round(rng.normal(), 2)) + 0.5]), vi.astype(np.int64))
    # (c) values of other shapes: the operation is element-wise whatever the shape
    v3, _ = probes(gi, rng)
    k3 = (len(v3) // 6) * 6
    run("values_2d", gi, v3[:k3].reshape(-1, 6))
    run("values_3d", gi, v3[:k3].reshape(2, -1, 3))
    run("values_0d_in_1d", gi, v3[:1])
    if len(gi) == 0 or k3 == 0:
        return
    # ... nor whatever their memory layout: Fortran order, a transposed view, permuted axes, a reversed / strided view
    a2 = v3[:k3].reshape(-1, 6)
    run("values_fortran_order", gi, np.asfortranarray(a2))
    run("values_transposed_view", gi, a2.T)
    run("values_permuted_axes_3d", gi, np.transpose(v3[:k3].reshape(2, -1, 3), (2, 0, 1)))
    run("values_reversed_strided_view", gi, a2[::-1, ::2])
    # ... nor on who owns the memory: write-protected values, one vector repeated with zero strides
    ro = np.array(v3[:k3], copy=True)
    ro.setflags(write=False)
    run("values_write_protected", gi, ro)
    run("values_zero_stride_broadcast", gi, np.broadcast_to(v3[:6], (5, 6)))
    run("values_empty", gi, np.zeros(0))
    run("values_empty_2d", gi, np.zeros((0, 3)))
    # a grid of consecutive integers around zero with NEGATIVE non-integer values (truncation is not rounding down)
    n0 = int(rng.integers(-12, -1))
    gc = np.arange(n0, n0 + int(rng.integers(8, 30)), dtype=float)
    run("consecutive_integer_grid_around_zero", gc, np.concatenate([rng.uniform(gc[0] - 2, gc[-1] + 2, size=60), gc[:-1] + 0.5, gc - 0.3, gc + 0.3]))
    # the caller's floating-point error state is its own business: with every numpy warning turned into an exception the snap is the same
    with np.errstate(all="raise"):
        run("errstate_all_raise", gi, v3[:k3])
        run("errstate_all_raise_one_element_grid", gi[:1], v3[:40])
    # digitize_data on data that is not C-contiguous / not writeable
    dd = int(rng.integers(2, 5))
    gl = [np.sort(rng.normal(size=int(rng.integers(2, 40)))) for _ in range(dd)]
    base_d = rng.normal(size=(int(rng.integers(1, 12)), dd)) * 2
    frozen = np.array(base_d, copy=True)
    frozen.setflags(write=False)
    wide_buf = np.zeros((len(base_d), 2 * dd))
    wide_buf[:, ::2] = base_d
    for label, arr in (("digitize_fortran_order", np.asfortranarray(base_d)), ("digitize_transposed_view", np.ascontiguousarray(base_d.T).T),
                       ("digitize_write_protected", frozen), ("digitize_zero_stride_rows", np.broadcast_to(base_d[0], base_d.shape)), ("digitize_strided_columns", wide_buf[:, ::2])):
        try:
            dg = np.asarray(digitize_data(arr, [g_.copy() for g_ in gl]))
            cnt(f"extra_{label}")
            if dg.shape != arr.shape:
                out["violations"].append({"msg": f"{label}: result shape {dg.shape} for data of shape {arr.shape}", "witness": {"data": np.array(arr)}})
                continue
            for j in range(dd):
                for k, why in judge(gl[j], np.array(arr[:, j], dtype=np.float64), np.array(dg[:, j], dtype=np.float64))[:1]:
                    out["violations"].append({"msg": f"{label} column {j}: {why}", "witness": {"grid": gl[j], "data": np.array(arr)}})
        except Exception as e:  # noqa: BLE001
            out["violations"].append({"msg": f"{label} raised {type(e).__name__}: {e}", "witness": {"data": np.array(arr)}})
    # columns whose grids are NEARLY equal (same length, far from the origin, shifted by a fraction of a step): each its own grid
    p_ = float(rng.choice([0.01, 0.7, 60.0, 1.0]))
    n_ = int(rng.integers(3, 50))
    lo0 = p_ * float(rng.choice([1e6, 1e7, -1e6])) * float(rng.integers(1, 40))
    near = [lo0 + sh * p_ + p_ * np.arange(n_) for sh in (0.0, 0.5, 0.35, -0.4)[: int(rng.integers(2, 5))]]
    dat = np.column_stack([rng.uniform(g_[0] - p_, g_[-1] + p_, size=12) for g_ in near])
    try:
        dg = np.asarray(digitize_data(dat, [g_.copy() for g_ in near]))
        cnt("extra_digitize_nearly_equal_grids")
        for j in range(len(near)):
            for k, why in judge(near[j], dat[:, j].copy(), np.array(dg[:, j], dtype=np.float64))[:1]:
                out["violations"].append({"msg": f"digitize_data with nearly equal grids, column {j}: {why}", "witness": {"grids": near, "data": dat}})
    except Exception as e:  # noqa: BLE001
        out["violations"].append({"msg": f"digitize_data with nearly equal grids raised {type(e).__name__}: {e}", "witness": {"grids": near}})
    # (d) grids at the ends of the float range / with gaps whose squares leave it
    big = np.sort(rng.uniform(-1.7, 1.7, size=int(rng.integers(2, 12)))) * 1e308
    vb = np.concatenate([big, (big[:-1] / 2 + big[1:] / 2), rng.uniform(-1.7, 1.7, size=20) * 1e308, [0.0, 1e300, -1e300]])
    run("grid_near_float_max", big, vb)
    wide = np.array([-1e200, -1e160, 0.0, 1e155, 1e200]) * float(rng.choice([1.0, 0.5, 3.0]))
    run("gaps_above_1e154", wide, np.concatenate([wide, rng.uniform(-1, 1, size=30) * 10.0 ** rng.uniform(150, 200, size=30), [1e199, -1e199, 3e154]]))
    small = np.sort(rng.uniform(-1, 1, size=int(rng.integers(2, 12)))) * 1e-300
    run("grid_near_float_min", small, np.concatenate([small, rng.uniform(-1, 1, size=30) * 1e-300, [0.0, 5e-324, -5e-324, 1e-310]]))
    sub = np.arange(0, 12) * 5e-324 * float(rng.integers(1, 5))
    run("subnormal_grid", sub, np.concatenate([sub, np.arange(0, 60) * 5e-324, [1e-300]]))
    # (e) a result handed out earlier stays what it was when further snaps are made
    d = int(rng.integers(1, 4))
    grids = [np.sort(rng.normal(size=int(rng.integers(2, 30)))) for _ in range(d)]
    a1, a2 = rng.normal(size=(int(rng.integers(1, 9)), d)) * 2, rng.normal(size=(int(rng.integers(1, 9)), d)) * 2
    try:
        r1 = digitize_data(a1, grids)
        keep = np.array(r1, copy=True)
        r2 = digitize_data(a2, grids)
        g1 = get_closest(grids[0], a1[:, 0])
        keepg = np.array(g1, copy=True)
        get_closest(grids[0], a2[:, 0])
        cnt("extra_earlier_results_rechecked")
        if not np.array_equal(r1, keep) or not np.array_equal(g1, keepg):
            out["violations"].append({"msg": "the array returned by an earlier snap changed when another array was snapped afterwards", "witness": {"first": keep, "first_now": r1}})
        if r1 is r2 or np.shares_memory(r1, r2):
            out["violations"].append({"msg": "two snaps returned arrays that share memory", "witness": {}})
    except Exception as e:  # noqa: BLE001
        out["violations"].append({"msg": f"digitize_data raised {type(e).__name__}: {e}", "witness": {}})
    # (b') digitize_data on integer / float32 data: still grid elements of each column's own (float64) grid
    for label, arr in (("digitize_integer_data", rng.integers(-3, 4, size=(6, d))), ("digitize_float32_data", (rng.normal(size=(6, d)) * 2).astype(np.float32))):
        try:
            dg = np.asarray(digitize_data(arr, grids))
            cnt(f"extra_{label}")
            for j in range(d):
                for k, why in judge(grids[j], np.asarray(arr[:, j], dtype=np.float64), np.asarray(dg[:, j], dtype=np.float64))[:1]:
                    out["violations"].append({"msg": f"{label} column {j}: {why}", "witness": {"grid": grids[j], "data": arr}})
        except Exception as e:  # noqa: BLE001
            out["violations"].append({"msg": f"{label} raised {type(e).__name__}: {e}", "witness": {"data": arr}})


def run_case(desc, ctx):
    from black_it.utils.base import digitize_data, get_closest

    rng = rng_for(desc["seed"], 17, desc["i"])
    grid = make_grid(desc["kind"], rng)
    vals, tags = probes(grid, rng)
    out = {"violations": [], "counters": {}, "evals": 0}
    c = out["counters"]
    try:
        res = get_closest(grid.copy(), vals.copy())
    except Exception as e:  # noqa: BLE001
        out["violations"].append({"msg": f"get_closest raised {type(e).__name__}: {e}", "witness": {"grid": grid, "values": vals}})
        return out
    bad = judge(grid, vals, res)
    for k, why in bad[:3]:
        out["violations"].append({"msg": "get_closest: " + why, "witness": {"grid": grid, "value": vals[k] if k >= 0 else None}})
    # idempotent
    try:
        again = get_closest(grid.copy(), np.asarray(res).copy())
        if not np.array_equal(again, res):
            k = int(np.where(again != res)[0][0])
            out["violations"].append({"msg": f"not idempotent: snap({res[k]!r}) = {again[k]!r}", "witness": {"grid": grid}})
    except Exception as e:  # noqa: BLE001
        out["violations"].append({"msg": f"get_closest raised on its own output {type(e).__name__}: {e}", "witness": {"grid": grid}})
    c["values_checked"] = len(vals)
    mid = np.isin(tags, [3, 4, 5])
    outside = (vals < grid[0]) | (vals > grid[-1])
    c["midpoint_probes"] = int(mid.sum())
    c["outside_probes"] = int(outside.sum())
    gh = hash(grid.tobytes()) & 0xFFFFFFFF
    out["nontrivial"] = [f"{gh:x}:{v!r}" for v in vals[mid | outside][:120]]
    out["evals"] = len(vals)

    # large inputs (thousands of values in arbitrary order): snapping acts element-wise whatever the array length
    if desc["i"] % 8 == 0:
        big = rng.choice(vals, size=int(rng.integers(4097, 20000)))
        try:
            resb = get_closest(grid.copy(), big.copy())
            c["large_arrays"] = c.get("large_arrays", 0) + 1
            out["evals"] += len(big)
            for k, why in judge(grid, big, resb)[:2]:
                out["violations"].append({"msg": f"get_closest on {len(big)} values: " + why, "witness": {"grid": grid, "n_values": len(big)}})
        except Exception as e:  # noqa: BLE001
            out["violations"].append({"msg": f"get_closest raised on {len(big)} values: {type(e).__name__}: {e}", "witness": {"grid": grid}})
    # lengths one beyond a multiple of 65536 (a chunked implementation's last, one-element chunk)
    if desc["i"] % 100 == 7:
        nbig = int(rng.choice([65537, 131073, 65536, 65538]))
        bigv = rng.choice(vals, size=nbig)
        bigv[-1] = vals[int(rng.integers(len(vals)))]
        try:
            resb = np.asarray(get_closest(grid.copy(), bigv.copy()))
            c["arrays_of_k_times_65536_plus_1_values"] = c.get("arrays_of_k_times_65536_plus_1_values", 0) + 1
            out["evals"] += nbig
            if resb.shape != bigv.shape:
                out["violations"].append({"msg": f"get_closest on {nbig} values returned shape {resb.shape}", "witness": {"grid": grid}})
            else:
                for a0 in list(range(0, nbig, 8192)):
                    for k, why in judge(grid, bigv[a0:a0 + 8192], resb[a0:a0 + 8192])[:1]:
                        out["violations"].append({"msg": f"get_closest on {nbig} values, position {a0 + k}: " + why, "witness": {"grid": grid, "n_values": nbig}})
                        break
        except Exception as e:  # noqa: BLE001
            out["violations"].append({"msg": f"get_closest raised on {nbig} values: {type(e).__name__}: {e}", "witness": {"grid": grid}})
    # several threads snapping at once (two calibrations driven from a thread pool): each gets the answer for ITS values
    if desc["i"] % 50 == 9:
        import sys
        import threading

        jobs = []
        for _t in range(4):
            g_t = make_grid(str(rng.choice(["arange", "dyadic", "random"])), rng)
            v_t, _ = probes(g_t, rng)
            jobs.append((g_t, v_t, np.array(get_closest(g_t.copy(), v_t.copy()), copy=True)))
        wrong = []
        barrier = threading.Barrier(len(jobs))

        def work(g_t, v_t, want):
            barrier.wait()
            for _r in range(40):
                try:
                    got_t = get_closest(g_t, v_t)
                    if not np.array_equal(got_t, want):
                        wrong.append(f"a snap made while other threads were snapping differs from the same snap made alone ({int(np.sum(got_t != want))} of {len(want)} values)")
                        return
                except Exception as e:  # noqa: BLE001
                    wrong.append(f"a snap made while other threads were snapping raised {type(e).__name__}: {e}")
                    return

        old_si = sys.getswitchinterval()
        sys.setswitchinterval(1e-6)
        try:
            ths = [threading.Thread(target=work, args=j) for j in jobs]
            [t.start() for t in ths]
            [t.join(60) for t in ths]
        finally:
            sys.setswitchinterval(old_si)
        c["concurrent_snap_rounds"] = c.get("concurrent_snap_rounds", 0) + 1
        out["evals"] += 160
        for msg in wrong[:1]:
            out["violations"].append({"msg": msg, "witness": {"grids": [j[0] for j in jobs]}})
    # digitize_data: column j uses grid j
    d = int(rng.integers(1, 7))
    rows = int(rng.integers(0, 51)) if desc["i"] % 16 else int(rng.integers(4097, 9000))
    grids = [grid] + [make_grid(str(rng.choice(["arange", "dyadic", "random", "repeated"])), rng) for _ in range(d - 1)]
    if desc["i"] % 2 and len(grid) >= 3 and grid[-1] > grid[0]:
        # columns whose grids share length and both end points but differ inside (each column must still use its own grid)
        n, a, b = len(grid), grid[0], grid[-1]
        fam = [grid]
        for _ in range(d - 1):
            t = np.sort(rng.random(n - 2)) if rng.random() < 0.5 else np.linspace(0, 1, n)[1:-1] ** float(rng.choice([0.5, 2.0, 3.0]))
            fam.append(np.concatenate([[a], a + (b - a) * t, [b]]))
        grids = fam
        c["digitize_same_endpoint_families"] = 1
    data = np.empty((rows, d))
    for j, g in enumerate(grids):
        v, _ = probes(g, rng)
        data[:, j] = rng.choice(v, size=rows) if rows else []
    before = data.copy()
    try:
        dig = digitize_data(data, [g.copy() for g in grids])
        if dig.shape != data.shape:
            out["violations"].append({"msg": f"digitize_data shape {dig.shape} != {data.shape}", "witness": {"shape": data.shape}})
        else:
            for j, g in enumerate(grids):
                for k, why in judge(g, before[:, j], dig[:, j])[:2]:
                    out["violations"].append({"msg": f"digitize_data column {j}: {why}", "witness": {"grid": g, "column": j, "d": d}})
                c["digitize_columns"] = c.get("digitize_columns", 0) + 1
            if not np.array_equal(before, data):
                out["violations"].append({"msg": "digitize_data modified its input", "witness": {}})
            out["evals"] += data.size
    except Exception as e:  # noqa: BLE001
        out["violations"].append({"msg": f"digitize_data raised {type(e).__name__}: {e}", "witness": {"shape": data.shape, "grids": grids}})
    if desc["i"] % 4 == 1:
        extras(rng, out, get_closest, digitize_data)
    if desc["i"] < 3:
        out["sample"] = {"grid_head": grid[:5], "grid_len": len(grid), "values_head": vals[:6], "snapped_head": np.asarray(res)[:6]}
    return out
