"""C15 - search-space validation order/payload and discretisation (reference validator + exact-rational grid)."""
from __future__ import annotations

import itertools
import math
from fractions import Fraction

import numpy as np

from vlib.core import rng_for

ID = "C15"
LEVEL = "exploration"
RULE = (
    "lattice: every assignment of (lower, upper, precision) from bounds {-1e6,-1,0,1e-9,1,1e6} x precisions "
    "{0,1e-9,0.5,1,2,1e7} for 1-2 parameters (quick) / 1-3 (thorough), list and ndarray spellings, plus malformed outer "
    "shapes (0-3 sub-lists, ragged lengths, wrong precision length); a one-parameter decimal lattice (bounds k/10 for k=-5..20, "
    "steps 0.1/0.2/0.3/0.5/0.7: ratios one ulp off a whole number, ranges nominally equal to the step); plus random well-formed spaces (1-6 parameters, any "
    "sign, scales 1e-6..1e6, dyadic/decimal/non-dividing steps, range/precision <= 1e5). A case is a block of inputs. "
    "Non-trivial input = two simultaneous defects (precedence matters) or a well-formed range that is an exact multiple "
    "of the precision; distinct by input."
    " A third of the array-typed specifications are write-protected; the others are changed by the caller after construction (grids and reported bounds must stay); the caller's specification is compared before / after; unsigned-integer bounds, a precision given as a 2-D row, coarse steps (10-1e5) with ranges just short of a whole number of steps."
)
ASSUMPTIONS = [
    "negative precisions are neither documented as errors nor meaningful: not generated",
    "grid elements may differ from lower+i*precision by 4(i+1) ulps of the largest magnitude (numpy.arange fills by repeated delta)",
    "when (upper+1e-7-lower)/precision is within float error of an integer either length is accepted",
    "axes with more than 1e5 points are outside the quantifier (counted skipped_big)",
]
REQUIRED_COUNTERS = {"read_only_array_specifications": 300, "caller_arrays_changed_after_construction": 100, "precision_given_as_2d": 4, "unsigned_integer_specifications": 90, "coarse_steps_range_just_short_of_a_multiple": 300, "decimal_lattice_inputs": 3000, "rejected_checked": 100, "accepted_checked": 50, "double_defect": 20, "exact_multiple": 10}
SHARDS = {"quick": 8, "thorough": 16}

BVALS = [-1e6, -1.0, 0.0, 1e-9, 1.0, 1e6]
PVALS = [0.0, 1e-9, 0.5, 1.0, 2.0, 1e7]
TRIPLES = [(lo, up, p) for lo in BVALS for up in BVALS for p in PVALS]  # 216


def gen_cases(tier, seed):
    cases = [{"kind": "shapes", "seed": seed}]
    cases += [{"kind": "lattice1", "seed": seed}]
    cases += [{"kind": "decimal1", "part": k, "seed": seed} for k in range(4)]
    # lattice for 2 params: 216 blocks (first triple fixed per block)
    cases += [{"kind": "lattice2", "first": i} for i in range(len(TRIPLES))]
    if tier == "thorough":
        cases += [{"kind": "lattice3", "first": i, "second": j} for i in range(len(TRIPLES)) for j in range(0, len(TRIPLES), 1)]
    n_rand = 150 if tier == "quick" else 40000
    cases += [{"kind": "random", "i": i, "seed": seed} for i in range(n_rand)]
    return cases


# ---------------------------------------------------------------- reference
def ref_validate(bounds, prec):
    """Return None if well-formed else (class name, payload dict) in the documented order."""
    if len(bounds) != 2:
        return ("BoundsNotOfSizeTwoError", {"count_bounds_subarrays": len(bounds)})
    if len(bounds[0]) != len(bounds[1]):
        return ("BoundsOfDifferentLengthError", {"lower_bounds_length": len(bounds[0]), "upper_bounds_length": len(bounds[1])})
    if len(prec) != len(bounds[0]):
        return ("BadPrecisionLengthError", {"precisions_length": len(prec), "bounds_length": len(bounds[0])})
    for i in range(len(prec)):
        lo, up, p = bounds[0][i], bounds[1][i], prec[i]
        if lo == up:
            return ("SameLowerAndUpperBoundError", {"param_index": i, "bound_value": lo})
        if lo > up:
            return ("LowerBoundGreaterThanUpperBoundError", {"param_index": i, "lower_bound": lo, "upper_bound": up})
        if p == 0:
            return ("PrecisionZeroError", {"param_index": i})
        if p > up - lo:
            return ("PrecisionGreaterThanBoundsRangeError", {"param_index": i, "lower_bound": lo, "upper_bound": up, "precision": p})
    return None


def n_defects(bounds, prec):
    """Number of independent defect kinds present (for the non-triviality rule)."""
    n = 0
    try:
        if len(bounds) != 2:
            return 1
        n += len(bounds[0]) != len(bounds[1])
        n += len(prec) != len(bounds[0])
        for lo, up, p in zip(bounds[0], bounds[1], prec):
            n += (lo == up) + (lo > up) + (p == 0) + (p != 0 and lo < up and p > up - lo)
    except Exception:  # noqa: BLE001
        pass
    return n


def ref_grid_len(lo, up, p):
    """Exact-rational length of arange(lo, fl(up+1e-7), p) and the tolerance-aware alternatives."""
    stop = up + 1e-7  # the float the library documents as its end point
    q = (Fraction(stop) - Fraction(lo)) / Fraction(p)
    n_exact = max(0, math.ceil(q))
    # float error budget of the quotient the implementation may legitimately see
    mag = max(abs(lo), abs(stop))
    tol = Fraction(float(np.spacing(mag))) / Fraction(p) * 2 + abs(q) * Fraction(2.0**-50)
    alts = {n_exact}
    if q - math.floor(q) <= tol:  # just above an integer: floor(q) also acceptable
        alts.add(max(0, math.floor(q)))
    if math.ceil(q) - q <= tol:  # just below an integer: ceil(q)+1 also acceptable
        alts.add(math.ceil(q) + 1)
    return n_exact, alts, q


def check_accept(bounds, prec, space):
    """Return list of reasons the constructed space deviates from the reference."""
    bad = []
    d = len(prec)
    if space.dims != d:
        bad.append(f"dims {space.dims} != {d}")
        return bad, False
    size = 1
    exact_multiple = False
    for j in range(d):
        lo, up, p = float(bounds[0][j]), float(bounds[1][j]), float(prec[j])
        g = space.param_grid[j]
        n_exact, alts, q = ref_grid_len(lo, up, p)
        if len(g) not in alts:
            bad.append(f"axis {j}: grid has {len(g)} points, reference {sorted(alts)} for [{lo!r},{up!r}] step {p!r}")
            continue
        size *= len(g)
        idx = np.arange(len(g), dtype=np.float64)
        ref = np.array([float(Fraction(lo) + i * Fraction(p)) for i in (range(len(g)) if len(g) <= 2000 else [])])
        if len(g) > 2000:
            sel = np.unique(np.concatenate([np.arange(50), np.linspace(0, len(g) - 1, 400).astype(int), np.arange(len(g) - 50, len(g))]))
            ref = np.array([float(Fraction(lo) + int(i) * Fraction(p)) for i in sel])
            got, idx = g[sel], idx[sel]
        else:
            got = g
        mag = max(abs(lo), abs(up + 1e-7))
        tolv = 4 * (idx + 1) * np.spacing(mag)
        off = np.abs(got - ref) > tolv
        if off.any():
            k = int(np.where(off)[0][0])
            bad.append(f"axis {j}: element {int(idx[k])} is {got[k]!r}, reference {ref[k]!r} (lower+i*precision)")
        if len(g) and g[0] != lo:
            bad.append(f"axis {j}: first element {g[0]!r} != lower bound {lo!r}")
        r = (Fraction(up) - Fraction(lo)) / Fraction(p)
        if r.denominator == 1:
            exact_multiple = True
            ri = int(r)
            # the bound itself must be a grid element: the one at index range/precision
            if len(g) <= ri or abs(g[ri] - up) > 4 * (ri + 1) * np.spacing(mag):
                # the library's own length formula, evaluated in floating point as numpy.arange does: the 1e-7 end-point tolerance
                # is lost to rounding (absorbed by the addition, or by the division) and the end point falls outside
                absorbed = len(g) == ri and math.ceil((float(up + 1e-7) - lo) / p) == ri
                bad.append(
                    (f"axis {j}: range is exactly {ri} steps but the upper bound {up!r} is not a grid element "
                     f"(grid has {len(g)} points, last {g[-1] if len(g) else None!r})",
                     "endpoint-tolerance-absorbed" if absorbed else None),
                )
    try:
        if not np.array_equal(np.asarray(space.parameters_bounds, dtype=float), np.asarray(bounds, dtype=float)) or \
                not np.array_equal(np.asarray(space.parameters_precision, dtype=float), np.asarray(prec, dtype=float)):
            bad.append(f"the space reports bounds {np.asarray(space.parameters_bounds).tolist()} / precision {np.asarray(space.parameters_precision).tolist()}, not the ones it was built from")
    except (TypeError, ValueError):
        pass
    if not bad and space.space_size != size:
        bad.append(f"space_size {space.space_size} != product of grid lengths {size}")
    return bad, exact_multiple


def too_big(bounds, prec):
    for lo, up, p in zip(bounds[0], bounds[1], prec):
        if p > 0 and (up + 1e-7 - lo) / p > 1e5 + 2:
            return True
    return False


def judge_input(bounds, prec, out):
    import black_it.search_space as ss

    c = out["counters"]
    try:
        exp = ref_validate(bounds, prec)
    except Exception:  # noqa: BLE001  reference cannot interpret the input: outside the documented domain
        c["ref_undefined"] = c.get("ref_undefined", 0) + 1
        return
    desc = {"bounds": bounds, "precision": prec}
    nd = n_defects(bounds, prec)
    if exp is None and too_big(bounds, prec):
        out["skipped"] = out.get("skipped", 0) + 1
        c["skipped_big"] = c.get("skipped_big", 0) + 1
        return
    out["evals"] += 1
    import copy as _copy

    arrays = [a for a in ([bounds, prec] + (list(bounds) if isinstance(bounds, list) else [])) if isinstance(a, np.ndarray)]
    readonly = bool(arrays) and out["evals"] % 3 == 0
    if readonly:
        # arrays loaded from a file or taken from a frozen configuration object are read-only: validating must not need to write
        for a in arrays:
            a.setflags(write=False)
        c["read_only_array_specifications"] = c.get("read_only_array_specifications", 0) + 1
    given = _copy.deepcopy((bounds, prec))
    try:
        space = ss.SearchSpace(bounds, prec, False)
        err = None
    except Exception as e:  # noqa: BLE001
        space, err = None, e
    try:
        same = all(np.array_equal(np.asarray(x, dtype=object), np.asarray(y, dtype=object)) for x, y in zip(_flat(given), _flat((bounds, prec))))
    except Exception:  # noqa: BLE001
        same = True
    if not same:
        out["violations"].append({"msg": "the caller's specification was modified by SearchSpace()", "witness": {"given": given, "after": (bounds, prec)}})
        return
    if arrays and not readonly and err is None:
        # the grids belong to the space: what the caller does with its own arrays afterwards does not reach them
        for a in arrays:
            if a.dtype.kind == "f" and a.size:
                a += 1.0
                a *= 3.0
        c["caller_arrays_changed_after_construction"] = c.get("caller_arrays_changed_after_construction", 0) + 1
        bounds, prec = given
    if exp is not None:
        c["rejected_checked"] = c.get("rejected_checked", 0) + 1
        if nd >= 2:
            c["double_defect"] = c.get("double_defect", 0) + 1
            out["nontrivial"].append(repr(desc))
        if err is None:
            out["violations"].append({"msg": f"malformed specification accepted; expected {exp[0]}", "witness": desc})
            return
        if type(err).__name__ != exp[0] or not isinstance(err, ss.SearchSpaceError) or not isinstance(err, ValueError):
            out["violations"].append({"msg": f"raised {type(err).__name__}({err}); documented order requires {exp[0]}", "witness": desc})
            return
        for k, v in exp[1].items():
            got = getattr(err, k, "<missing>")
            if isinstance(got, str) or not (got == v):
                out["violations"].append({"msg": f"{exp[0]}.{k} = {got!r}, expected {v!r}", "witness": desc})
                return
        return
    c["accepted_checked"] = c.get("accepted_checked", 0) + 1
    if err is not None:
        out["violations"].append({"msg": f"well-formed specification rejected with {type(err).__name__}: {err}", "witness": desc})
        return
    bad, exact_multiple = check_accept(bounds, prec, space)
    if exact_multiple:
        c["exact_multiple"] = c.get("exact_multiple", 0) + 1
        out["nontrivial"].append(repr(desc))
    for b in bad[:2]:
        msg, mech = b if isinstance(b, tuple) else (b, None)
        v = {"msg": msg, "witness": desc}
        if mech:
            v["mechanism"] = mech
        out["violations"].append(v)


def _flat(spec):
    b, p = spec
    return (list(b) if isinstance(b, (list, tuple)) else [b]) + [p]


def spell(bounds, prec, how):
    if how == 3:   # tuples
        return tuple(tuple(b) for b in bounds), tuple(prec)
    if how == 4:   # integer-typed entries where the values are whole numbers
        f = lambda v: int(v) if float(v).is_integer() and abs(v) < 2**53 else v  # noqa: E731
        return [[f(v) for v in b] for b in bounds], [f(v) for v in prec]
    if how == 0:
        return bounds, prec
    if how == 1:
        return np.array(bounds, dtype=float), np.array(prec, dtype=float)
    return [np.array(bounds[0]), np.array(bounds[1])], np.array(prec)


def run_case(desc, ctx):
    out = {"violations": [], "counters": {}, "evals": 0, "nontrivial": []}
    kind = desc["kind"]
    if kind == "shapes":
        rng = rng_for(desc["seed"], 15, 0)
        inner = [[], [0.0], [0.0, 1.0], [1.0, 0.0, 2.0]]
        for nb in range(4):
            for combo in itertools.product(inner, repeat=nb):
                for pl in ([], [0.5], [0.5, 0.0], [1.0, 1.0, 1.0]):
                    judge_input([list(c) for c in combo], list(pl), out)
        # the precision given as a 2-D row, unsigned-integer bounds (differences wrap around in unsigned arithmetic)
        for b2, p2 in [([[0.0, 0.0], [1.0, 1.0]], [[0.1, 0.2]]), (np.array([[0.0, 0.0], [1.0, 1.0]]), np.array([[0.1, 0.2]])),
                       ([[0.0, 0.0, 0.0], [1.0, 1.0, 1.0]], [[0.1, 0.2, 0.3]]), ([[0.0], [1.0]], [[0.1], [0.2]])]:
            judge_input(b2, p2, out)
            out["counters"]["precision_given_as_2d"] = out["counters"].get("precision_given_as_2d", 0) + 1
        for dt in (np.uint8, np.uint16, np.uint32, np.uint64):
            for lo_, up_, p_ in [(5, 3, 1), (3, 5, 1), (3, 5, 4), (3, 5, 2), (0, 200, 7), (200, 0, 7), (7, 7, 1), (250, 3, 1), (3, 5, 0), (5, 3, 0), (0, 255, 255), (1, 255, 255)]:
                judge_input(np.array([[lo_], [up_]], dtype=dt), np.array([p_], dtype=dt), out)
                judge_input(np.array([[1, lo_], [4, up_]], dtype=dt), [1, p_], out)
                out["counters"]["unsigned_integer_specifications"] = out["counters"].get("unsigned_integer_specifications", 0) + 2
        # ragged with valid-looking values, random
        for _ in range(300):
            d0, d1, dp = (int(x) for x in rng.integers(0, 4, size=3))
            lo = sorted(rng.normal(size=d0).tolist())
            up = (np.array(rng.normal(size=d1)) + 5).tolist()
            judge_input([lo, up], rng.choice([0.0, 0.1, 1.0, 100.0], size=dp).tolist(), out)
    elif kind == "lattice1":
        for t in TRIPLES:
            for how in (0, 1, 2, 3, 4):
                b, p = spell([[t[0]], [t[1]]], [t[2]], how)
                judge_input(b, p, out)
    elif kind == "decimal1":
        # one-decimal bounds and steps: range/precision ratios that are nominally whole numbers but one ulp off in binary, ranges
        # nominally equal to the precision, last grid points one ulp above the bound
        tenths = [k / 10 for k in range(-5, 21)]
        steps = [0.1, 0.2, 0.3, 0.5, 0.7]
        combos = [(lo, up, st) for lo in tenths for up in tenths for st in steps]
        for t in combos[desc["part"]::4]:
            b, p = spell([[t[0]], [t[1]]], [t[2]], 0)
            judge_input(b, p, out)
            out["counters"]["decimal_lattice_inputs"] = out["counters"].get("decimal_lattice_inputs", 0) + 1
    elif kind == "lattice2":
        a = TRIPLES[desc["first"]]
        for k, b2 in enumerate(TRIPLES):
            b, p = spell([[a[0], b2[0]], [a[1], b2[1]]], [a[2], b2[2]], k % 5)
            judge_input(b, p, out)
    elif kind == "lattice3":
        a, b2 = TRIPLES[desc["first"]], TRIPLES[desc["second"]]
        for c3 in TRIPLES:
            judge_input([[a[0], b2[0], c3[0]], [a[1], b2[1], c3[1]]], [a[2], b2[2], c3[2]], out)
    elif kind == "random":
        rng = rng_for(desc["seed"], 15, 1, desc["i"])
        for _ in range(12):
            d = int(rng.integers(1, 7))
            lo, up, pr = [], [], []
            for _j in range(d):
                scale = 10.0 ** rng.integers(-6, 7)
                style = int(rng.integers(0, 5))
                npts = int(rng.choice([1, 2, 3, 7, 10, 100, 1000, 99999, int(rng.integers(1, 100000))]))
                if style == 0:  # dyadic exact multiple
                    p = 2.0 ** int(rng.integers(-10, 10))
                    l0 = p * int(rng.integers(-1000, 1000))
                    u0 = l0 + p * npts
                elif style == 1:  # decimal multiple (not exact in binary)
                    p = float(rng.choice([0.1, 0.01, 0.001, 0.3, 0.7, 1e-4])) * scale
                    l0 = float(np.round(rng.normal(), 2)) * scale
                    u0 = l0 + p * npts
                elif style == 2:  # does not divide
                    p = float(rng.uniform(0.1, 1.0)) * scale
                    l0 = float(rng.normal()) * scale
                    u0 = l0 + p * (npts + float(rng.uniform(0.05, 0.95)))
                elif style == 4:  # coarse step, range short of (or within the documented 1e-7 of) a whole number of steps
                    p = float(rng.choice([10.0, 100.0, 1000.0, 1e5]))
                    npts = int(rng.integers(1, 101))
                    l0 = p * int(rng.integers(-3, 4))
                    u0 = l0 + p * npts - float(rng.choice([1e-6, 3e-7, 1e-8, 5e-8 * p, 1e-9 * p]))
                    out["counters"]["coarse_steps_range_just_short_of_a_multiple"] = out["counters"].get("coarse_steps_range_just_short_of_a_multiple", 0) + 1
                else:  # offset far from zero relative to range
                    p = float(rng.choice([0.25, 0.1, 1 / 3])) * scale
                    l0 = float(rng.choice([-1, 1])) * scale * float(10.0 ** rng.integers(0, 5))
                    u0 = l0 + p * npts
                if not (u0 > l0 and p <= u0 - l0):
                    u0 = l0 + 2 * p
                lo.append(l0), up.append(u0), pr.append(p)
            b, p = spell([lo, up], pr, int(rng.integers(0, 5)))
            judge_input(b, p, out)
    if desc.get("i", 0) == 0 and kind in ("random", "lattice1"):
        out["sample"] = {"kind": kind, "evals": out["evals"], "first_nontrivial": out["nontrivial"][:2]}
    return out
