"""C05 - resuming from a checkpoint equals never having stopped (segmented run vs uninterrupted twin)."""
from __future__ import annotations

import itertools

import numpy as np

from vlib import calgen as CG
from vlib import gen as G
from vlib import state as S
from vlib.core import jhash, quiet, rng_for
from vlib.runcfg import run

ID = "C05"
LEVEL = "exploration"
RULE = (
    "case = generated round-robin configuration (as C01: all nine samplers, all losses, ensemble 1-3; a fifth of the cases on "
    "a grid of at most a few dozen points so that proposals collide with the history; a quarter of the cases with restores into a "
    "saving folder that another calibration used before) and a total of n "
    "batches; for n <= 4 every labelling of the n-1 gaps with {no cut, plain second calibrate(), checkpoint/restore/continue} "
    "(3^(n-1) segmented runs), for n up to 8 a seeded sample of labellings incl. chains of 2-3 restores. Oracle: at every "
    "boundary the segmented run's five history arrays equal, byte for byte, the same-length prefix of an uninterrupted twin, "
    "and at the end the whole history; in a third of the cases the run is additionally cut once with the continuation restored and run "
    "in another interpreter with its own hash seed. Non-trivial = a cut immediately before the turn of a stateful sampler (Halton/RSequence "
    "cursor, PSO swarm, CORS counter, surrogate seed stream, BestBatch generator); distinct by (configuration, labelling)."
    ' A quarter of the cases spell the saving folder non-canonically (relative to the working directory, through "..", with "./", with a trailing slash).'
)
ASSUMPTIONS = [
    "as C01 (no HP-based filters; third-party determinism trusted)",
    "the RL scheduler is limited to one session by the quantifier and takes no part in cuts",
]
REQUIRED_COUNTERS = {"folders_not_spelled_canonically": 30, "continued_in_another_process": 12, "many_parameter_cases": 4, "saving_folder_used_before_by_another_run": 20, "tiny_grid_cases": 5, "segmented_runs": 150, "restore_cuts": 100, "plain_cuts": 100, "cuts_before_stateful": 80, "restore_chains": 10}
REQUIRED_COUNTERS.update({f"cut_before_{k}": 1 for k in G.SAMPLER_KINDS})
SHARDS = {"quick": 16, "thorough": 16}
SHARD_WATCHDOG = {"quick": 1500, "thorough": 10800}


def gen_cases(tier, seed):
    n = 72 if tier == "quick" else 1400
    return [{"i": i, "seed": seed, "tier": tier} for i in range(n)]


def prefix(h, rows):
    return {k: h[k][:rows] for k in S.HISTORY}


def run_case(desc, ctx):
    from black_it.calibrator import Calibrator

    i = desc["i"]
    rng = rng_for(desc["seed"], 5, i)
    out = {"violations": [], "counters": {}, "evals": 0, "nontrivial": []}
    c = out["counters"]
    heavy = i % 3 == 0
    kinds = None if heavy else G.CHEAP + ["XGBoost"]
    tiny = i % 5 == 3   # a grid with about as many points as the run has rows: proposals collide with the history, de-duplication works hard
    many = i % 6 == 1 and not heavy   # 11-13 parameters: column naming / ordering beyond a single digit on the restore path
    extreme = i % 7 == 5 and not heavy   # the model returns inf / 1e300-sized values: non-finite losses and huge series cross the checkpoint
    cfg = CG.gen_config(rng, kinds=kinds, n_samplers=int(rng.integers(2, 5)) if tiny else int(rng.integers(1, 5)), max_bs=4 if tiny else 2, scheduler=str(rng.choice(["list", "rr"])),
                        model=str(rng.choice(["inf", "huge"])) if extreme else "plain",
                        **({"loss_kinds": ["minkowski", "msm", "fourier"]} if extreme else {}),
                        **({"max_points": 4, "max_params": 2} if tiny else ({"params": int(rng.integers(11, 14))} if many else {})))
    if many and not tiny:
        c["many_parameter_cases"] = 1
    if extreme:
        c["models_returning_nonfinite_or_huge"] = 1
    if tiny:
        c["tiny_grid_cases"] = 1
        # several rows of one batch collide with the history at once: which replacement lands in which row must not depend on anything but the run
        cfg["lineup"][0] = dict(G.gen_sampler_desc(rng, "RandomUniform", batch_size=int(rng.integers(3, 5))), max_dedup=5)
    if heavy:
        k = G.SAMPLER_KINDS[(i // 3) % 9]
        if k in G.HISTORY_FREE:
            cfg["lineup"].insert(int(rng.integers(0, len(cfg["lineup"]) + 1)), G.gen_sampler_desc(rng, k, batch_size=1))
        else:
            cfg["lineup"].insert(int(rng.integers(1, len(cfg["lineup"]) + 1)), G.gen_sampler_desc(rng, k, batch_size=1))
    if any(d["kind"] in ("CORS", "ParticleSwarm", "GaussianProcess") for d in cfg["lineup"]) and i % 2 and not tiny:
        cfg["space"] = G.gen_space(rng, dims=cfg["P"], fine=True)   # continuous-state samplers: let small state differences reach the grid
    L = len(cfg["lineup"])
    small = i % 2 == 0 and not tiny
    n = int(rng.integers(2, 5)) if small else int(rng.integers(5, 9 if desc["tier"] == "quick" else 11))
    twin = run(cfg, [n])
    twin.pop("cal")
    if twin.get("error"):
        c["twin_ended_by_exception"] = 1
        return out
    model = CG.model_for(cfg)
    if n <= 4:
        labelings = list(itertools.product((0, 1, 2), repeat=n - 1))
        if heavy and len(labelings) > 9:
            labelings = [labelings[j] for j in sorted(rng.choice(len(labelings), 9, replace=False))]
    else:
        labelings = [tuple(int(x) for x in rng.choice([0, 1, 2], size=n - 1, p=[0.5, 0.2, 0.3])) for _ in range(4)]
        labelings.append(tuple([2] * (n - 1)))  # restore after every batch
    sizes = [d["batch_size"] for d in cfg["lineup"]]
    rows_after = np.cumsum([sizes[b % L] for b in range(n)])
    for lab in labelings:
        if not any(lab):
            continue
        wit = {"config": cfg, "batches": n, "labelling": list(lab), "legend": "0 none, 1 second calibrate(), 2 checkpoint/restore/continue"}
        folder = str(ctx.scratch() / "ck")
        if i % 4 == 3:
            # the folder is not spelled canonically: relative to the working directory, through "..", with a "./" or a trailing slash
            import os

            how = int(rng.integers(0, 4))
            base_, name_ = os.path.split(folder)
            os.makedirs(os.path.join(base_, "sub"), exist_ok=True)
            folder = [os.path.relpath(folder), os.path.join(base_, "sub", "..", name_), os.path.join(base_, ".", name_), folder + "/"][how]
            c["folders_not_spelled_canonically"] = c.get("folders_not_spelled_canonically", 0) + 1
            wit["folder_spelling"] = ["relative", "through ..", "with ./", "trailing slash"][how]
        if 2 in lab and i % 4 == 2:
            # the saving folder was used before by another calibration (other loss, line-up, shapes): what is restored later must be this run
            try:
                prng = rng_for(desc["seed"], 5, 10**6 + i)
                other_cfg = CG.gen_config(prng, kinds=G.HISTORY_FREE, n_samplers=2, max_bs=2)
                with quiet():
                    CG.build_calibrator(other_cfg, folder=folder).calibrate(int(prng.integers(1, 4)))
                c["saving_folder_used_before_by_another_run"] = c.get("saving_folder_used_before_by_another_run", 0) + 1
                wit["saving_folder_used_before_by_another_run"] = {"loss": other_cfg["loss"]["kind"], "lineup": [d["kind"] for d in other_cfg["lineup"]]}
            except Exception:  # noqa: BLE001
                pass
        try:
            with quiet():
                cal = CG.build_calibrator(cfg, folder=folder)
            done, seg = 0, 0
            bad = None
            nrest = 0
            for b in range(n):
                seg += 1
                cut = lab[b] if b < n - 1 else 1
                if cut == 0:
                    continue
                with quiet(), G.time_limit(G.LIMIT):
                    cal.calibrate(seg)
                done += seg
                seg = 0
                d = S.history_equal(S.history_arrays(cal), prefix(twin, int(rows_after[done - 1])))
                if d:
                    bad = f"after {done} of {n} batches the segmented run differs from the uninterrupted twin: " + "; ".join(d[:2])
                    break
                if b < n - 1:
                    nxt = cfg["lineup"][(b + 1) % L]["kind"]
                    key = "restore_cuts" if cut == 2 else "plain_cuts"
                    c[key] = c.get(key, 0) + 1
                    c[f"cut_before_{nxt}"] = c.get(f"cut_before_{nxt}", 0) + 1
                    c[f"matrix_{'restore' if cut == 2 else 'plain'}_before_{nxt}"] = c.get(f"matrix_{'restore' if cut == 2 else 'plain'}_before_{nxt}", 0) + 1
                    if CG.stateful(nxt):
                        c["cuts_before_stateful"] = c.get("cuts_before_stateful", 0) + 1
                        out["nontrivial"].append(jhash([cfg, lab]))
                    if cut == 2:
                        with quiet():
                            cal = Calibrator.restore_from_checkpoint(folder, model)
                        nrest += 1
            if nrest >= 2:
                c["restore_chains"] = c.get("restore_chains", 0) + 1
            c["segmented_runs"] = c.get("segmented_runs", 0) + 1
            out["evals"] += 1
            if bad:
                out["violations"].append({"msg": bad + f" (labelling {list(lab)}, line-up {[d['kind'] for d in cfg['lineup']]})", "witness": wit})
                if len(out["violations"]) >= 2:
                    break
        except G.Timeout:
            c["third_party_timeout"] = c.get("third_party_timeout", 0) + 1
        except Exception as e:  # noqa: BLE001
            out["violations"].append({"msg": f"segmented run raised {type(e).__name__}: {str(e)[:160]} although the uninterrupted twin completed (labelling {list(lab)})", "witness": wit})
            break
    if (tiny or i % 4 == 1) and n >= 2 and not out["violations"]:
        # the restart that matters in practice: the first k batches in this process, then ANOTHER interpreter (own hash seed, own memory
        # layout) restores the checkpoint and runs the rest
        import json
        import os
        import subprocess
        import sys

        k_cut = int(rng.integers(1, n))
        folder = str(ctx.scratch() / "ck")
        wit = {"config": cfg, "batches": n, "first_process_ran": k_cut, "second_process_ran": n - k_cut}
        try:
            with quiet(), G.time_limit(G.LIMIT):
                CG.build_calibrator(cfg, folder=folder).calibrate(k_cut)
            d = ctx.scratch()
            (d / "job.json").write_text(json.dumps({"cfg": cfg, "calls": [n - k_cut], "restore_from": folder}))
            env = dict(os.environ, PYTHONHASHSEED=str(1 + (i * 7919 + desc["seed"]) % 4000000))
            subprocess.run([sys.executable, "-m", "vlib.runcfg", str(d / "job.json"), str(d / "out.npz")], env=env, timeout=300, check=True,  # noqa: S603
                           stdout=subprocess.DEVNULL, stderr=subprocess.PIPE)
            z = np.load(d / "out.npz", allow_pickle=False)
            c["continued_in_another_process"] = 1
            out["evals"] += 1
            if str(z["error"]):
                out["violations"].append({"msg": f"another process restored the checkpoint after {k_cut} batches but its continuation raised {str(z['error'])}", "witness": wit})
            else:
                dd = S.history_equal({h: z[h] for h in S.HISTORY}, {h: twin[h] for h in S.HISTORY})
                if dd:
                    out["violations"].append({"msg": f"{k_cut} batches in one process, restore and {n - k_cut} batches in another: the history differs from the uninterrupted twin: " + "; ".join(dd[:2]),
                                              "witness": wit})
        except (subprocess.TimeoutExpired, G.Timeout):
            c["third_party_timeout"] = c.get("third_party_timeout", 0) + 1
        except Exception as e:  # noqa: BLE001
            out["violations"].append({"msg": f"restart in another process failed: {type(e).__name__}: {str(e)[:160]}", "witness": wit})
    if i < 2:
        out["sample"] = {"lineup": [(d["kind"], d["batch_size"]) for d in cfg["lineup"]], "batches": n, "labellings": [list(x) for x in labelings[:5]], "loss": cfg["loss"]["kind"]}
    return out
