"""C12 - deduplication replaces only repeats, asks for exactly that many, gives up only after its passes.

Monitor: a scripted sampler subclass records every sample_batch request; an executable model of the
statement is run on the same script and compared with what the real BaseSampler.sample did.
"""
from __future__ import annotations

from collections import Counter

import numpy as np

from vlib.core import rng_for

ID = "C12"
LEVEL = "exploration"
RULE = (
    "case = block of sampler objects, each used for 1-3 successive sample() calls (fresh script and history per call, the history of equal or different length); a script = (history 0-20 rows on a tiny integer grid, with or without internal repeats; "
    "batch size 1-6; dims 1-3; pass budget 0-6; a scripted stream of rows mixing fresh rows, repeats of history, in-batch "
    "repeats and repeats of earlier redraws). Non-trivial = at least 2 redraw passes actually performed or budget "
    "exhausted with a surviving repeat; distinct by script hash."
    ' The scripted generator returns C-ordered, Fortran-ordered or strided arrays; the pass budget is given at construction or assigned afterwards; now and then the history has 10 500-13 000 rows whose oldest rows are the repeated ones; rows on 1e9 + k (equal in float32, distinct in float64).'
)
ASSUMPTIONS = [
    "which redraw lands on which repeat position is not fixed by the statement: the model compares multisets and the untouched positions",
    "rows are finite, no signed zeros",
]
REQUIRED_COUNTERS = {"generators_returning_non_contiguous_arrays": 200, "budget_assigned_after_construction": 100, "histories_above_10000_rows": 3, "scripts_with_signed_zeros": 100, "scripts_on_nearly_equal_values": 300, "reused_sampler_calls": 300, "scripts": 500, "two_or_more_passes": 50, "budget_exhausted": 20, "zero_budget": 5, "history_with_repeats": 20}
SHARDS = {"quick": 8, "thorough": 16}


def gen_cases(tier, seed):
    n = 160 if tier == "quick" else 30000
    return [{"i": i, "seed": seed} for i in range(n)]


def repeats_positions(history, batch):
    """Positions of batch rows that occur more than once in history + batch (the statement's 'repeat')."""
    cnt = Counter(map(tuple, history.tolist()))
    cnt.update(map(tuple, batch.tolist()))
    return [k for k, row in enumerate(map(tuple, batch.tolist())) if cnt[row] > 1]


def model(history, script, batch_size, budget):
    """Executable model: returns (request sizes, final multiset, untouched mask, initial draw, survived, passes)."""
    pos = 0
    requests = [batch_size]
    batch = script[pos:pos + batch_size].copy()
    pos += batch_size
    first = batch.copy()
    touched = np.zeros(batch_size, dtype=bool)
    passes = 0
    for _ in range(budget):
        rep = repeats_positions(history, batch)
        if not rep:
            break
        requests.append(len(rep))
        redraw = script[pos:pos + len(rep)]
        pos += len(rep)
        batch[rep] = redraw
        touched[rep] = True
        passes += 1
    survived = len(repeats_positions(history, batch))
    return requests, Counter(map(tuple, batch.tolist())), touched, first, survived, passes


def run_script(rng, out):
    """One sampler object, 1-3 successive sample() calls on it with fresh scripts and histories (equal or different lengths)."""
    from black_it.samplers.base import BaseSampler
    from black_it.search_space import SearchSpace

    from vlib.core import quiet

    dims = int(rng.integers(1, 4))
    width = int(rng.integers(2, 9))  # grid values 0..width-1 per axis: collisions likely
    bs = int(rng.integers(1, 7))
    budget = int(rng.integers(0, 7))
    space = SearchSpace([[0.0] * dims, [float(width - 1)] * dims], [1.0] * dims, False)
    # the rows the scripted generator hands out live on base + k*step: unit integers, or nearly-equal distinct values
    # (large magnitude with a fine step, tiny steps) - "repeat" means exactly equal rows, nothing looser
    base, step = [(0.0, 1.0), (0.0, 1.0), (1000.0, 0.001), (0.0, 1e-9), (1e6, 0.5), (-3.0, 1e-7), (1e9, 1.0)][int(rng.integers(0, 7))]   # last: distinct in float64, equal in float32
    if step != 1.0:
        c0 = out["counters"]
        c0["scripts_on_nearly_equal_values"] = c0.get("scripts_on_nearly_equal_values", 0) + 1

    def lift(a):
        return base + np.asarray(a, dtype=float) * step

    log = []
    cur = {"script": None}

    class Scripted(BaseSampler):
        def __init__(self):
            super().__init__(batch_size=bs, random_state=0, max_deduplication_passes=budget)
            self.pos = 0

        def sample_batch(self, batch_size, search_space, existing_points, existing_losses):
            log.append(int(batch_size))
            r = cur["script"][self.pos:self.pos + batch_size].copy()
            self.pos += batch_size
            if layout == "fortran":
                return np.asfortranarray(r)
            if layout == "strided":      # a view into a wider buffer (every second column)
                buf = np.zeros((len(r), 2 * r.shape[1]))
                buf[:, ::2] = r
                return buf[:, ::2]
            return r

    layout = str(rng.choice(["c", "c", "fortran", "strided"]))     # what a generator returns need not be a fresh C-ordered array
    with quiet():
        sampler = Scripted()
    c = out["counters"]
    if layout != "c":
        c["generators_returning_non_contiguous_arrays"] = c.get("generators_returning_non_contiguous_arrays", 0) + 1
    if rng.random() < 0.15:
        # the budget is a public attribute: assigned after construction it is what counts
        sampler.max_deduplication_passes = int(rng.integers(0, 7))
        budget = sampler.max_deduplication_passes
        c["budget_assigned_after_construction"] = c.get("budget_assigned_after_construction", 0) + 1
    nh = int(rng.integers(0, 21))
    ncalls = int(rng.integers(1, 4))
    for call in range(ncalls):
        if call > 0 and rng.random() < 0.5:
            nh = int(rng.integers(0, 21))      # else: a different history of the same length as in the previous call
        if rng.random() < 0.004:
            nh = int(rng.integers(10500, 13000))   # a long calibration: repeats of OLD rows are repeats too
            c["histories_above_10000_rows"] = c.get("histories_above_10000_rows", 0) + 1
        if nh > 10000:
            # the rows with first coordinate 0 occur only among the OLDEST rows
            hi = rng.integers(0, width, size=(nh, dims))
            hi[: nh - 10000, 0] = 0
            hi[nh - 10000:, 0] = rng.integers(1, width, size=10000)
            history = lift(hi)
        elif rng.random() < 0.4 or nh == 0:
            history = lift(rng.integers(0, width, size=(nh, dims)))  # may contain internal repeats
        else:
            allpts = np.array(np.meshgrid(*[np.arange(width)] * dims)).reshape(dims, -1).T.astype(float)
            history = lift(allpts[rng.permutation(len(allpts))[: min(nh, len(allpts))]])
        losses = rng.random(len(history))
        total = bs * (budget + 1)
        p_hist = float(rng.choice([0.0, 0.3, 0.7, 1.0]))
        script = lift(rng.integers(0, width, size=(total, dims)))
        for k in range(total):
            u = rng.random()
            if len(history) and u < p_hist * 0.6:
                script[k] = history[rng.integers(len(history))]
            elif k > 0 and u > 0.8:
                script[k] = script[rng.integers(k)]  # repeat of an earlier draw / redraw
        if rng.random() < 0.2:
            # signed zeros: -0.0 and 0.0 are the same point (a repeat), whatever their bit patterns
            for arr in (script, history):
                z = (arr == 0.0) & (rng.random(arr.shape) < 0.5)
                arr[z] = -0.0
            if np.any(script == 0.0) or np.any(history == 0.0):
                c["scripts_with_signed_zeros"] = c.get("scripts_with_signed_zeros", 0) + 1
        cur["script"] = script
        sampler.pos = 0
        del log[:]
        hist_before = history.copy()
        desc = {"dims": dims, "width": width, "batch_size": bs, "budget": budget, "history": history, "script": script, "call_on_this_object": call}
        try:
            with quiet():
                got = sampler.sample(space, history, losses)
        except Exception as e:  # noqa: BLE001
            out["violations"].append({"msg": f"sample() raised {type(e).__name__}: {e}", "witness": desc})
            return
        requests, multiset, touched, first, survived, passes = model(hist_before, script, bs, budget)
        c["scripts"] = c.get("scripts", 0) + 1
        out["evals"] += 1
        if call > 0:
            c["reused_sampler_calls"] = c.get("reused_sampler_calls", 0) + 1
        if len(np.unique(hist_before, axis=0)) < len(hist_before):
            c["history_with_repeats"] = c.get("history_with_repeats", 0) + 1
        if budget == 0:
            c["zero_budget"] = c.get("zero_budget", 0) + 1
        if passes >= 2:
            c["two_or_more_passes"] = c.get("two_or_more_passes", 0) + 1
        if survived and passes == budget and budget > 0:
            c["budget_exhausted"] = c.get("budget_exhausted", 0) + 1
        if passes >= 2 or (survived and budget > 0):
            out["nontrivial"].append(f"{hash((script.tobytes(), history.tobytes(), bs, budget)) & 0xFFFFFFFFFFFF:x}")
        got = np.asarray(got)
        w = dict(desc, requests_seen=list(log), requests_model=requests, returned=got)
        if got.shape != (bs, dims):
            out["violations"].append({"msg": f"returned shape {got.shape}, expected {(bs, dims)}", "witness": w})
            return
        if list(log) != requests:
            out["violations"].append({"msg": f"sample_batch was asked for {list(log)} rows, the statement requires {requests}" + (f" (call {call} on a reused sampler object)" if call else ""), "witness": w})
            return
        if Counter(map(tuple, got.tolist())) != multiset:
            out["violations"].append({"msg": "returned multiset differs from first draw with repeats substituted by the redraws", "witness": w})
            return
        keep = ~touched
        if not np.array_equal(got[keep], first[keep]):
            out["violations"].append({"msg": "a row that was never a repeat was altered or moved", "witness": w})
            return
        n_rep = len(repeats_positions(hist_before, got))
        if n_rep and passes < budget:
            out["violations"].append({"msg": f"{n_rep} repeat(s) returned although only {passes} of {budget} passes were used", "witness": w})
        if not np.array_equal(history, hist_before):
            out["violations"].append({"msg": "history modified by sample()", "witness": w})
        if c["scripts"] <= 1:
            out["sample"] = {"batch_size": bs, "budget": budget, "history_rows": len(history), "requests": list(log), "returned": got}


def run_case(desc, ctx):
    rng = rng_for(desc["seed"], 12, desc["i"])
    out = {"violations": [], "counters": {}, "evals": 0, "nontrivial": []}
    for _ in range(60):
        run_script(rng, out)
        if len(out["violations"]) > 3:
            break
    return out
