"""C16 - history-driven samplers use the history faithfully and never modify it."""
from __future__ import annotations

from collections import Counter

import numpy as np

from vlib import gen as G
from vlib.core import jhash, quiet, rng_for
from vlib.hooks import Wrap, digest

ID = "C16"
LEVEL = "exploration"
RULE = (
    "three kinds of case. nomod: every built-in sampler's sample() on histories with ties, 1e300, +-inf and "
    ">float32 losses; digests of existing_points/existing_losses before == after, also for a second call after the sampler's own "
    "batch was appended with inf / nan / overflowing losses; direct sample_batch(k) with k != batch_size returns k rows. surrogate: a stub MLSurrogateSampler with "
    "seeded arbitrary fit/predict (incl. constant and tie-heavy predictions) and the three real surrogates with fit/predict "
    "wrapped (and, for the real ones, the third-party estimator's own fit: it receives exactly the history rows and no hold-out "
    "arguments; XGBoost histories up to 90 rows, GP histories above 500 now and then): fit sees exactly the given history (stub histories also with inf / nan losses), predict sees the pool sample_candidates produced, the returned rows are "
    "pool rows that are the batch_size lowest predictions (ties at the cut accepted), count == requested. bestbatch: every "
    "proposal is explained by a history point among those with loss <= the batch_size-th smallest loss moved by k in "
    "+-[1, range-1] precision steps on >= 1 coordinate (0 elsewhere) then clipped to the bounds and snapped. "
    "Non-trivial = a tie at the selection boundary or an extreme loss present; distinct by (sampler, history hash, options)."
    ' Stub variants: a subclass overriding only sample_candidates, predictions returned as list / tuple, predictions with -inf / +inf, history points outside the space; BestBatch objects are called 1-3 times (history extended by their own batch, or an unrelated shorter history).'
    ' A tenth of the stub cases have 550-1300 history rows and the default pool (1000 x batch size); a pool predicted in consecutive pieces is accepted, the selection is judged on the pieces put together.'
)
ASSUMPTIONS = [
    "an exception inside a third-party estimator on an extreme history is 'no batch' (counted rejected)",
    "fitted estimators are third-party; only what black_it passes to and takes from them is judged",
]
REQUIRED_COUNTERS = {f"nomod_{k}": 6 for k in G.SAMPLER_KINDS}
REQUIRED_COUNTERS.update({"stub_long_history_with_default_pool": 3, "bestbatch_calls_on_extended_history": 20, "bestbatch_calls_on_unrelated_history": 8, "histories_with_points_outside_the_space": 20, "stub_subclasses_with_their_own_pool": 15, "stub_predictions_as_list_or_tuple": 25, "stub_predictions_with_infinities": 6, "stub_histories_with_nonfinite_losses": 15, "nomod_second_call_on_extended_history": 30, "direct_sample_batch_other_size": 60, "estimator_fits_observed": 40, "second_history_same_length": 40, "stub_calls": 100, "real_surrogate_calls": 30, "bestbatch_proposals": 200, "extreme_histories": 50, "boundary_ties": 20})
SHARDS = {"quick": 16, "thorough": 16}
SHARD_WATCHDOG = {"quick": 1500, "thorough": 10800}


def gen_cases(tier, seed):
    k = 1 if tier == "quick" else 250
    cases = [{"kind": "nomod", "sampler": s, "i": i, "seed": seed} for i in range(6 * k) for s in G.SAMPLER_KINDS]
    cases += [{"kind": "stub", "i": i, "seed": seed} for i in range(40 * k)]
    cases += [{"kind": "real", "sampler": s, "i": i, "seed": seed} for i in range(6 * k) for s in ("RandomForest", "XGBoost", "GaussianProcess")]
    cases += [{"kind": "bestbatch", "i": i, "seed": seed} for i in range(40 * k)]
    return cases


def extreme_losses(rng, n):
    losses = rng.random(n) + 0.01
    kinds = []
    for _ in range(int(rng.integers(1, 4))):
        j = int(rng.integers(n))
        v = float(rng.choice([1e300, 5e299, 3.5e38, 1e39, -3.5e38, np.inf, -np.inf, 3.4028234663852886e38]))
        losses[j] = v
        kinds.append(v)
    if rng.random() < 0.5:
        losses[int(rng.integers(n))] = losses[int(rng.integers(n))]
    return losses, kinds


def rows(a):
    return [tuple(r) for r in np.asarray(a).tolist()]


def check_selection(pool, pred, returned, bs):
    """returned must be bs pool rows with the lowest predictions (ties at the cut: any)."""
    pred = np.asarray(pred, dtype=float).ravel()
    if len(returned) != bs:
        return f"returned {len(returned)} rows, requested {bs}"
    if len(pred) != len(pool):
        return None  # predict contract broken by the stub itself; not judged
    t = np.sort(pred)[bs - 1]
    must = Counter(rows(pool[pred < t]))
    may = Counter(rows(pool[pred == t]))
    got = Counter(rows(returned))
    rest = got - must
    if sum((must - got).values()):
        return f"a pool row with prediction below the cut {t!r} was not returned"
    if sum((rest - may).values()):
        bad = next(iter((rest - may).keys()))
        inpool = bad in Counter(rows(pool))
        return f"returned row {bad} is " + ("a pool row whose prediction is above the cut" if inpool else "not a pool row")
    return None


def run_case(desc, ctx):
    from black_it.samplers.surrogate import MLSurrogateSampler

    kind = desc["kind"]
    tag = {"nomod": 0, "stub": 1, "real": 2, "bestbatch": 3}[kind]
    sidx = G.SAMPLER_KINDS.index(desc["sampler"]) if "sampler" in desc else 0
    rng = rng_for(desc["seed"], 16, tag, sidx, desc["i"])
    out = {"violations": [], "counters": {}, "evals": 0, "nontrivial": []}
    c = out["counters"]

    def cnt(k, n=1):
        c[k] = c.get(k, 0) + n

    def bad(msg, w):
        out["violations"].append({"msg": msg, "witness": w})

    if kind == "nomod":
        sk = desc["sampler"]
        slow = sk in ("CORS", "GaussianProcess")
        for rep in range(2 if slow else 4):
            sd = G.gen_space(rng, dims=int(rng.integers(1, 4)), max_points=60)
            space = G.build_space(sd)
            smp = G.gen_sampler_desc(rng, sk)
            n = int(rng.integers(max(smp["batch_size"], 3), 20 if slow else 50))
            pts, losses, lk = G.gen_history(rng, space, n)
            extreme = rng.random() < 0.6
            if extreme:
                losses, ek = extreme_losses(rng, n)
                cnt("extreme_histories")
            p0, l0 = digest(pts), digest(losses)
            readonly = rep % 2 == 1
            if readonly:   # the history belongs to the caller: handing it over write-protected must not disturb any sampler
                pts.setflags(write=False)
                losses.setflags(write=False)
                cnt("readonly_histories")
            w = {"sampler": smp, "space": sd, "losses": losses, "extreme": extreme, "history_write_protected": readonly}
            try:
                with quiet(), G.time_limit(G.LIMIT):
                    s = G.build_sampler(smp)
                    first = s.sample(space, pts, losses)
                    if sk in ("ParticleSwarm", "CORS") or rng.random() < 0.3:
                        s.sample(space, pts, losses)
                    if rng.random() < 0.5:
                        # the run goes on: the batch just proposed is evaluated (possibly with an inf / nan / overflowing loss) and appended,
                        # then the same sampler object is asked again - its own previous batch is now part of the history
                        new_l = rng.random(len(first)) + 0.01
                        if rng.random() < 0.6:
                            new_l[int(rng.integers(len(first)))] = float(rng.choice([np.inf, -np.inf, np.nan, 1e300, -1e39, 3.5e38]))
                        pts2 = np.vstack((pts, first))
                        losses2 = np.concatenate((losses, new_l))
                        p2, l2 = digest(pts2), digest(losses2)
                        if readonly:
                            pts2.setflags(write=False)
                            losses2.setflags(write=False)
                        cnt("nomod_second_call_on_extended_history")
                        try:
                            s.sample(space, pts2, losses2)
                        finally:
                            if digest(pts2) != p2:
                                bad(f"{sk}: sample() modified existing_points (second call, after its own batch was appended)", dict(w, appended_losses=new_l))
                            if digest(losses2) != l2:
                                bad(f"{sk}: sample() modified existing_losses (second call, after its own batch was appended with losses {new_l})", dict(w, appended_losses=new_l))
            except G.Timeout:
                cnt(f"rejected_timeout_{sk}")
            except Exception as e:  # noqa: BLE001
                if "read-only" in str(e):
                    bad(f"{sk}: sample() tried to write into the (write-protected) history: {type(e).__name__}: {e}", w)
                cnt(f"rejected_{sk}")
            cnt(f"nomod_{sk}")
            out["evals"] += 1
            if digest(pts) != p0:
                bad(f"{sk}: sample() modified existing_points", w)
            if digest(losses) != l0:
                bad(f"{sk}: sample() modified existing_losses (now {losses[:6]}...)", w)
            if extreme:
                out["nontrivial"].append(jhash([smp, sd, losses.tolist()]))
        return out

    if kind in ("stub", "real"):
        for rep in range(4 if kind == "stub" else 2):
            sd = G.gen_space(rng, dims=int(rng.integers(1, 4)), max_points=40)
            space = G.build_space(sd)
            bs = int(rng.integers(1, 6))
            pool_n = int(rng.integers(bs, 80))
            n = int(rng.integers(3, 40))
            if kind == "real" and desc["sampler"] == "XGBoost" and rng.random() < 0.4:
                n = int(rng.integers(50, 90))      # long enough for any internal hold-out / early-stopping split to kick in
            if kind == "real" and desc["sampler"] == "GaussianProcess" and rng.random() < 0.08:
                n = int(rng.integers(505, 530))    # beyond the sampler's "big dataset" threshold (500): still the whole history
                cnt("gp_histories_above_500")
            default_pool = False
            if kind == "stub" and rng.random() < 0.1:
                # late in a long calibration with the DEFAULT pool (1000 x batch size): hundreds of history rows times thousands of candidates
                bs = int(rng.integers(4, 9))
                n = int(rng.integers(550, 1300))
                pool_n = 1000 * bs
                default_pool = True
                cnt("stub_long_history_with_default_pool")
            pts, losses, lk = G.gen_history(rng, space, n)
            if kind == "stub" and rng.random() < 0.35:
                # non-finite losses are part of "the given history" too (what a user surrogate does with them is its business)
                losses, _ek = extreme_losses(rng, n)
                if rng.random() < 0.5:
                    losses[int(rng.integers(n))] = np.nan
                lk = "extreme"
                cnt("stub_histories_with_nonfinite_losses")
            if rng.random() < 0.25:
                # a refined run with narrower bounds that re-uses earlier evaluations: some history points lie OUTSIDE the space given now
                pts = np.array(pts, copy=True)
                width = space.parameters_bounds[1] - space.parameters_bounds[0]
                for r_ in rng.choice(len(pts), size=min(len(pts), int(rng.integers(1, 4))), replace=False):
                    j_ = int(rng.integers(space.dims))
                    pts[r_, j_] = space.parameters_bounds[int(rng.integers(2)), j_] + float(rng.choice([-1.0, 1.0])) * width[j_] * float(rng.choice([2.0, 1e-9, 0.5]))
                cnt("histories_with_points_outside_the_space")
            seen = {"fit": [], "predict": [], "pool": [], "batches": [], "estimator_fit": []}
            pmode = str(rng.choice(["random", "constant", "ties", "linear", "large_offset", "huge", "neg_inf"]))
            pseed = int(rng.integers(2**31))
            ptype = str(rng.choice(["ndarray", "ndarray", "list", "tuple"]))     # what a user-written predict returns: not necessarily an ndarray
            own_pool = bool(kind == "stub" and rng.random() < 0.3)               # a subclass that overrides sample_candidates only

            if kind == "stub":
                class Stub(MLSurrogateSampler):
                    def fit(self, X, y):
                        pass

                    def predict(self, X):
                        v = self._predict(X)
                        return v if ptype == "ndarray" else (v.tolist() if ptype == "list" else tuple(v.tolist()))

                    def _predict(self, X):
                        r = np.random.default_rng(pseed + len(seen["predict"]))
                        if pmode == "neg_inf":          # log-scale scores: -inf is the lowest prediction there is
                            v = r.normal(size=len(X))
                            v[r.random(len(X)) < 0.15] = -np.inf
                            if r.random() < 0.3:
                                v[r.random(len(X)) < 0.1] = np.inf
                            return v
                        if pmode == "random":
                            return r.normal(size=len(X))
                        if pmode == "constant":
                            return np.zeros(len(X))
                        if pmode == "ties":
                            return r.integers(0, 3, size=len(X)).astype(float)
                        if pmode == "large_offset":     # distinct in float64, equal after a down-cast to float32
                            return 1e6 + r.normal(size=len(X)) * 1e-3
                        if pmode == "huge":             # finite in float64, beyond the float32 range
                            return 10.0 ** r.uniform(30, 300, size=len(X))
                        return X @ r.normal(size=X.shape[1])

                if own_pool:
                    def _own_pool(self, batch_size, search_space, existing_points, existing_losses):
                        r = np.random.default_rng(pseed ^ 0x5A5A)
                        idx = [r.integers(0, len(g), size=self.candidate_pool_size) for g in search_space.param_grid]
                        # the first grid points of every axis only: a pool the default generator would hardly ever produce
                        pool_ = np.column_stack([g[np.minimum(i_, max(1, len(g) // 3))] for g, i_ in zip(search_space.param_grid, idx)])
                        seen["pool"].append(np.array(pool_, copy=True))
                        return pool_

                    Stub.sample_candidates = _own_pool
                    cnt("stub_subclasses_with_their_own_pool")
                if ptype != "ndarray":
                    cnt("stub_predictions_as_list_or_tuple")
                if pmode == "neg_inf":
                    cnt("stub_predictions_with_infinities")
                cls = Stub
                with quiet():
                    sampler = Stub(bs, random_state=int(rng.integers(2**31)), max_deduplication_passes=int(rng.choice([0, 2, 5])), candidate_pool_size=None if default_pool else pool_n)
                smp = {"kind": "stub", "batch_size": bs, "pool": pool_n, "predict": pmode}
            else:
                smp = G.gen_sampler_desc(rng, desc["sampler"], batch_size=bs)
                smp["pool"] = pool_n
                with quiet():
                    sampler = G.build_sampler(smp)
                cls = type(sampler)
            w = {"sampler": smp, "space": sd, "n_history": n, "loss_kind": lk}

            def post_fit(tok, res, err, self, X, y):
                seen["fit"].append((np.array(X, copy=True), np.array(y, copy=True)))

            def post_predict(tok, res, err, self, X):
                seen["predict"].append((np.array(X, copy=True), None if res is None else np.array(res, copy=True)))

            def post_pool(tok, res, err, self, *a, **k):
                seen["pool"].append(None if res is None else np.array(res, copy=True))

            def post_batch(tok, res, err, self, batch_size, *a, **k):
                seen["batches"].append((int(batch_size), None if res is None else np.array(res, copy=True), len(seen["predict"]), len(seen["fit"]), len(seen["pool"])))

            import contextlib

            est_stack = contextlib.ExitStack()
            if kind == "real":
                # what black_it hands to the third-party estimator: the rows it is trained on are the history rows, all of them
                if desc["sampler"] == "XGBoost":
                    import xgboost as _xgb

                    est_cls = _xgb.XGBRegressor
                elif desc["sampler"] == "GaussianProcess":
                    from sklearn.gaussian_process import GaussianProcessRegressor as est_cls
                else:
                    from sklearn.ensemble import RandomForestClassifier as est_cls

                def pre_est(self_, X, y=None, *a, **k):
                    seen["estimator_fit"].append((np.array(X, copy=True), None if y is None else len(np.asarray(y)), sorted(k)))

                est_stack.enter_context(Wrap(est_cls, "fit", pre=pre_est))
            try:
                with est_stack, Wrap(cls, "fit", post=post_fit), Wrap(cls, "predict", post=post_predict), \
                        Wrap(MLSurrogateSampler, "sample_candidates", post=post_pool), Wrap(MLSurrogateSampler, "sample_batch", post=post_batch), \
                        quiet(), G.time_limit(G.LIMIT):
                    final = sampler.sample(space, pts, losses)
                    n_first = len(seen["batches"])
                    # the same object again, on a different history of the same length
                    pts_b, losses_b, _ = G.gen_history(rng, space, n)
                    final_b = sampler.sample(space, pts_b, losses_b)
                    # ... and asked directly for another number of rows than it was constructed for (what a de-duplication pass does)
                    k_req = int(rng.choice([x for x in (1, 2, 3, bs + 1, bs + 3) if x != bs and x <= pool_n] or [bs]))
                    direct = sampler.sample_batch(k_req, space, pts_b, losses_b)
                    if np.asarray(direct).shape != (k_req, space.dims):
                        bad(f"{smp['kind']}: sample_batch({k_req}) on a sampler constructed with batch_size {bs} returned shape {np.asarray(direct).shape}", w)
                    cnt("direct_sample_batch_other_size")
            except G.Timeout:
                cnt("rejected_timeout")
                continue
            except Exception as e:  # noqa: BLE001
                if kind == "stub":
                    # nothing in the stub raises: whatever its predict returns (ndarray, list, tuple; finite or not), a batch is due
                    bad(f"stub surrogate (predictions: {pmode} as {ptype}): sample() raised {type(e).__name__}: {str(e)[:160]}", w)
                cnt(f"rejected_{smp['kind']}")
                continue
            out["evals"] += len(seen["batches"])  # one evaluation per sample_batch selection judged
            cnt("stub_calls" if kind == "stub" else "real_surrogate_calls", len(seen["batches"]))
            if not seen["batches"] or not seen["fit"] or len(seen["predict"]) < len(seen["batches"]):
                bad(f"{smp['kind']}: sample_batch ran {len(seen['batches'])} times but fit {len(seen['fit'])} / predict {len(seen['predict'])} times", w)
                continue
            cnt("second_history_same_length")
            if kind == "real":
                if not seen["estimator_fit"]:
                    bad(f"{smp['kind']}: the third-party estimator's fit() was never reached", w)
                else:
                    cnt("estimator_fits_observed", len(seen["estimator_fit"]))
                    Xe, ny, kws = seen["estimator_fit"][0]
                    if Xe.shape != np.asarray(pts).shape or not np.array_equal(Xe, pts) or (ny is not None and ny != len(pts)):
                        bad(f"{smp['kind']}: the estimator was trained on {Xe.shape[0]} rows" + (f" (extra arguments {kws})" if kws else "") +
                            f", the history given has {len(pts)}: not exactly the given history", w)
                    elif any(k_ in ("eval_set", "sample_weight") for k_ in kws):
                        bad(f"{smp['kind']}: the estimator's fit got {kws}: part of the history is used for something else than training", w)
            for bi, (req, res, npred, nfit, npool) in enumerate(seen["batches"]):
                hp, hl = (pts, losses) if bi < n_first else (pts_b, losses_b)
                if nfit == 0 or npool == 0:
                    bad(f"{smp['kind']}: a batch was selected before any fit / candidate pool existed", w)
                    break
                # the model that decided this batch is the one fitted last: it must have been trained on exactly the history given to this call
                X, y = seen["fit"][nfit - 1]
                if not (np.array_equal(X, hp) and np.array_equal(y, hl, equal_nan=True)):
                    bad(f"{smp['kind']}: the surrogate that selected batch {bi} was trained on something else than the history given to that call "
                        f"(X {X.shape} vs {hp.shape}{', second call on the same object with another history of equal length' if bi >= n_first else ''})", w)
                    break
                pool = seen["pool"][npool - 1]
                # the predict call that decided this batch is the last one made before sample_batch returned
                Xp, pred = seen["predict"][npred - 1]
                if pool is None or len(pool) != pool_n:
                    bad(f"{smp['kind']}: candidate pool has {None if pool is None else len(pool)} rows, candidate_pool_size is {pool_n}", w)
                    break
                if not np.array_equal(Xp, pool):
                    # the pool may legitimately be predicted in several pieces: the predict calls made during this sample_batch, put
                    # together in order, must then be the pool, and the predictions are the pieces put together
                    first_call = seen["batches"][bi - 1][2] if bi > 0 else 0
                    pieces = seen["predict"][first_call:npred]
                    try:
                        Xall = np.vstack([np.asarray(x_).reshape(-1, pool.shape[1]) for x_, _p in pieces])
                        pall = None if any(p_ is None for _x, p_ in pieces) else np.concatenate([np.asarray(p_, dtype=float).ravel() for _x, p_ in pieces])
                    except ValueError:
                        Xall, pall = None, None
                    if Xall is None or not np.array_equal(Xall, pool):
                        bad(f"{smp['kind']}: predict() was not evaluated on the candidate pool (neither in one call nor in consecutive pieces)", w)
                        break
                    cnt("pools_predicted_in_pieces")
                    pred = pall
                if pred is None or np.any(np.isnan(np.asarray(pred, dtype=float))):
                    continue
                why = check_selection(pool, pred, res, req)
                if why:
                    bad(f"{smp['kind']}: {why} (requested {req}, pool {pool_n}, predictions {pmode if kind == 'stub' else 'real'})", dict(w, pred=pred))
                    break
                t = np.sort(np.asarray(pred, dtype=float).ravel())[req - 1]
                if np.sum(np.asarray(pred).ravel() == t) > 1:
                    cnt("boundary_ties")
                    out["nontrivial"].append(jhash([smp, sd, n, bi, pseed]))
            if np.asarray(final).shape != (bs, space.dims):
                bad(f"{smp['kind']}: sample() returned shape {np.asarray(final).shape}", w)
            if "sample" not in out and desc["i"] == 0:
                out["sample"] = {"sampler": smp, "history": n, "sample_batch_requests": [b[0] for b in seen["batches"]], "returned": final}
        return out

    # ---------------------------------------------------------------- best batch
    for rep in range(4):
        sd = G.gen_space(rng, dims=int(rng.integers(1, 5)), max_points=60)
        space = G.build_space(sd)
        smp = G.gen_sampler_desc(rng, "BestBatch", batch_size=int(rng.integers(1, 7)))
        bs, R = smp["batch_size"], smp["perturbation_range"]
        n = int(rng.integers(bs, 80))
        pts, losses, lk = G.gen_history(rng, space, n)
        extreme = rng.random() < 0.3
        if extreme:
            losses, _ = extreme_losses(rng, n)
            if rng.random() < 0.5:
                losses[np.isneginf(losses)] = -1e300
            elif np.any(np.isneginf(losses)):
                cnt("bestbatch_histories_with_minus_infinity")      # -inf is the lowest loss there is: its point leads the elite
            cnt("extreme_histories")
        from black_it.samplers.best_batch import BestBatchSampler

        with quiet():
            sampler = G.build_sampler(smp)
        n_steps = int(rng.choice([1, 1, 2, 3]))
        for step in range(n_steps):
            if step > 0:
                # the same sampler object is asked again: on the history extended by its own last batch (whose losses may be the new best
                # or the new worst), or on an unrelated, possibly SHORTER history (object re-used for another calibration)
                if rng.random() < 0.7 and got_batches:
                    newp = got_batches[0]
                    newl = rng.random(len(newp)) * float(rng.choice([1e-3, 1.0, 1e3])) + float(rng.choice([0.0, np.min(losses) - 1.0]))
                    pts, losses = np.vstack((pts, newp)), np.concatenate((losses, newl))
                    cnt("bestbatch_calls_on_extended_history")
                else:
                    n = int(rng.integers(bs, max(bs + 1, n)))
                    pts, losses, lk = G.gen_history(rng, space, n)
                    cnt("bestbatch_calls_on_unrelated_history")
            w = {"sampler": smp, "space": sd, "n_history": len(pts), "loss_kind": lk, "losses": losses, "call_on_this_object": step}
            got_batches = []

            def post_batch(tok, res, err, self, batch_size, *a, **k):
                if res is not None:
                    got_batches.append(np.array(res, copy=True))

            try:
                with Wrap(BestBatchSampler, "sample_batch", post=post_batch), quiet():
                    sampler.sample(space, pts, losses)
            except Exception as e:  # noqa: BLE001
                bad(f"BestBatch: sample() raised {type(e).__name__}: {e}", w)
                break
            out["evals"] += 1
            cut = np.sort(losses)[bs - 1]
            cand = pts[losses <= cut]
            if np.sum(losses == cut) > 1 and np.sum(losses <= cut) > bs:
                cnt("boundary_ties")
            lo, up, prec = space.parameters_bounds[0], space.parameters_bounds[1], space.parameters_precision
            from vlib.props.c17 import judge  # snapping oracle (float-nearest)

            def allowed(hj, j, ks):
                vals = set()
                for k in ks:
                    # an untouched coordinate (k == 0) is not clipped by the sampler: the grid may exceed the upper bound by its 1e-7 tolerance
                    v = float(hj) if k == 0 else float(np.clip(hj + prec[j] * k, lo[j], up[j]))
                    g = space.param_grid[j]
                    d = np.abs(g - v)
                    for e in g[d <= d.min()]:
                        vals.add(float(e))
                    vals.add(v)
                return vals

            ks_move = [k for k in range(-(R - 1), R) if k != 0]
            for b in got_batches:
                for q in b:
                    cnt("bestbatch_proposals")
                    ok = False
                    for h in cand:
                        moved = False
                        fits = True
                        for j in range(space.dims):
                            if q[j] in allowed(h[j], j, ks_move):
                                moved = True
                            elif q[j] not in allowed(h[j], j, [0]):
                                fits = False
                                break
                        if fits and moved:
                            ok = True
                            break
                    if not ok:
                        bad(f"BestBatch: proposal {q.tolist()} is not one of the {bs} lowest-loss points displaced by 1..{R - 1} steps on >=1 coordinate", dict(w, best_points=cand[:8]))
                        break
            if extreme or lk in ("ties", "equal"):
                out["nontrivial"].append(jhash([smp, sd, losses.tolist()]))
    return out
