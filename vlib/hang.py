"""When a run does not come back: who could still make progress?

A wall-clock limit alone decides nothing (the machine may be loaded).  What decides is the state of the threads when the limit
fires: if the calibration thread waits for a message and the only thread that could send it has exited, or is itself blocked in
a wait, no amount of time will help - that is a deadlock, not slowness.
"""
from __future__ import annotations

import sys

BLOCKING = ("wait", "get", "acquire", "_wait_for_tstate_lock", "join")


def agent_state(scheduler):
    """(description, can_still_progress) for the RL scheduler's agent thread."""
    t = getattr(scheduler, "_agent_thread", None)
    if t is None:
        return "no agent thread exists", False
    if not t.is_alive():
        return "the agent thread has exited", False
    f = sys._current_frames().get(t.ident)
    names = []
    while f is not None:
        names.append(f.f_code.co_name)
        f = f.f_back
    if names and names[0] in BLOCKING:
        return "the agent thread is itself blocked in " + "/".join(names[:3]), False
    return "the agent thread is running", True


def release(scheduler):
    try:
        scheduler._stopped = True
        scheduler._out_queue.put(None)
        t = getattr(scheduler, "_agent_thread", None)
        if t is not None:
            t.join(timeout=5)
    except Exception:  # noqa: BLE001
        pass
