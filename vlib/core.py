"""Runner: seeds, sharding, verdict lines, evidence, known-findings classification.

A property module (vlib/props/cXX.py) provides

    ID, LEVEL, RULE, ASSUMPTIONS
    gen_cases(tier, seed) -> list[dict]           descriptor-first, JSON-serialisable
    run_case(desc, ctx)   -> dict                 see CaseOut below
    REQUIRED_COUNTERS = {name: minimum}           monitors that must have been reached
    classify(violation) -> str | None             optional; mechanism id for known findings
    finalize(merged, tier) -> list[violation]     optional; cross-case oracle

CaseOut keys (all optional except none):
    evals        int   number of evaluations this case stands for (default 1)
    nontrivial   list[str] | bool   keys of distinct non-trivial sub-cases (True -> descriptor hash)
    violations   list[{"msg":..., "witness":..., "mechanism":...}]
    counters     {name: int}
    sample       anything JSON-serialisable (kept for a few cases)
    skipped      int
    inconclusive str   reason
"""
from __future__ import annotations

import contextlib
import hashlib
import importlib
import io
import json
import os
import shutil
import subprocess
import sys
import tempfile
import time
import traceback
from collections import Counter
from pathlib import Path

VERIF = Path(__file__).resolve().parent.parent
PY = os.environ.get("VERIF_PYTHON", "/venv/bin/python")
NCPU = int(os.environ.get("VERIF_JOBS", "16"))


# --------------------------------------------------------------------------- tree under test
def repo_path() -> Path:
    return Path(os.environ.get("VERIF_REPO", "/repo")).resolve()


def bind_repo() -> Path:
    """Make `import black_it` resolve to the tree under test; refuse otherwise."""
    rp = repo_path()
    sys.dont_write_bytecode = True
    if str(rp) in sys.path:
        sys.path.remove(str(rp))
    sys.path.insert(0, str(rp))
    import black_it  # noqa: PLC0415

    got = Path(black_it.__file__).resolve()
    if rp not in got.parents:
        raise Inconclusive(f"black_it imported from {got}, not from {rp}")
    return rp


class Inconclusive(Exception):
    pass


def preimport():
    """Import everything heavy up front: a SIGALRM-based time limit must never fire in the middle of an import."""
    import importlib as _il

    for name in ("numpy", "scipy.stats", "scipy.optimize", "scipy.sparse.linalg", "scipy.spatial.distance", "pandas", "h5py", "joblib",
                 "statsmodels.api", "sklearn.ensemble", "sklearn.gaussian_process", "xgboost", "gymnasium",
                 "black_it.calibrator", "black_it.samplers.best_batch", "black_it.samplers.cors", "black_it.samplers.gaussian_process",
                 "black_it.samplers.halton", "black_it.samplers.particle_swarm", "black_it.samplers.r_sequence", "black_it.samplers.random_forest",
                 "black_it.samplers.random_uniform", "black_it.samplers.xgboost", "black_it.loss_functions.fourier", "black_it.loss_functions.gsl_div",
                 "black_it.loss_functions.likelihood", "black_it.loss_functions.minkowski", "black_it.loss_functions.msm",
                 "black_it.schedulers.rl.rl_scheduler", "black_it.schedulers.rl.agents.epsilon_greedy", "black_it.schedulers.rl.envs.mab",
                 "black_it.utils.sqlite3_checkpointing", "black_it.utils.time_series"):
        try:
            _il.import_module(name)
        except Exception:  # noqa: BLE001  a tree under test may have broken an import: the check itself will say so
            pass


# --------------------------------------------------------------------------- helpers
def rng_for(seed: int, *key: int):
    import numpy as np  # noqa: PLC0415

    return np.random.default_rng(np.random.SeedSequence(entropy=seed, spawn_key=tuple(int(k) for k in key)))


def prop_num(pid: str) -> int:
    return int(pid[1:])


def jhash(obj) -> str:
    return hashlib.sha1(json.dumps(obj, sort_keys=True, default=repr).encode()).hexdigest()[:16]


@contextlib.contextmanager
def quiet():
    """Silence the library's prints and warnings (they are not events we judge)."""
    import warnings  # noqa: PLC0415

    buf = io.StringIO()
    with contextlib.redirect_stdout(buf), warnings.catch_warnings():
        warnings.simplefilter("ignore")
        yield buf


class Ctx:
    def __init__(self, tier: str, seed: int, tmp: Path):
        self.tier = tier
        self.seed = seed
        self.tmp = tmp
        self._n = 0

    def scratch(self) -> Path:
        self._n += 1
        p = self.tmp / f"s{os.getpid()}_{self._n}"
        p.mkdir(parents=True, exist_ok=True)
        return p


def jsonable(o):
    import numpy as np  # noqa: PLC0415

    if isinstance(o, dict):
        return {str(k): jsonable(v) for k, v in o.items()}
    if isinstance(o, (list, tuple, set, frozenset)):
        return [jsonable(v) for v in o]
    if isinstance(o, np.ndarray):
        if o.size > 64:
            return {"ndarray": list(o.shape), "dtype": str(o.dtype), "head": jsonable(o.ravel()[:16].tolist())}
        return jsonable(o.tolist())
    if isinstance(o, (np.integer,)):
        return int(o)
    if isinstance(o, (np.floating, float)):
        f = float(o)
        if f != f or f in (float("inf"), float("-inf")):
            return repr(f)
        return f
    if isinstance(o, (np.bool_,)):
        return bool(o)
    if isinstance(o, (str, int, bool)) or o is None:
        return o
    if isinstance(o, bytes):
        return o[:32].hex()
    return repr(o)[:300]


# --------------------------------------------------------------------------- shard worker
def load_prop(pid: str):
    return importlib.import_module(f"vlib.props.{pid.lower()}")


def shard_main(pid: str, tier: str, seed: int, shard: int, nshards: int, out: str) -> int:
    """Run this shard's cases, appending one JSON line per case to `out` (so that a crash of the interpreter - e.g. a
    segfault inside a third-party library - loses at most the case in flight; the runner restarts the shard, which skips
    what is done and retries the interrupted case once)."""
    import faulthandler  # noqa: PLC0415

    mod = load_prop(pid)
    wd = getattr(mod, "SHARD_WATCHDOG", {"quick": 1500, "thorough": 10800})[tier]
    faulthandler.dump_traceback_later(wd, exit=True)
    outp = Path(out)
    done, started = set(), Counter()
    if outp.exists():
        for line in outp.read_text().splitlines():
            try:
                rec = json.loads(line)
            except Exception:  # noqa: BLE001  a torn last line
                continue
            if "started" in rec:
                started[rec["started"]] += 1
            elif "idx" in rec:
                done.add(rec["idx"])
    fh = outp.open("a")

    def emit(rec):
        fh.write(json.dumps(rec) + "\n")
        fh.flush()

    tmp = Path(tempfile.mkdtemp(prefix=f"verif_{pid}_"))
    error = None
    n_total = None
    try:
        bind_repo()
        preimport()
        ctx = Ctx(tier, seed, tmp)
        cases = mod.gen_cases(tier, seed)
        n_total = len(cases)
        for idx, desc in enumerate(cases):
            if idx % nshards != shard or idx in done:
                continue
            if started[idx] >= 2:
                emit(jsonable({"idx": idx, "desc": desc, "inconclusive": "the interpreter crashed twice while running this case (third-party crash, not a verdict)"}))
                continue
            emit({"started": idx})
            if os.environ.get("VERIF_CRASH_ONCE") == str(idx) and started[idx] == 0:  # runner self-test: die like a segfault would
                os.kill(os.getpid(), 11)
            try:
                out_c = mod.run_case(desc, ctx) or {}
            except Inconclusive as e:
                out_c = {"inconclusive": str(e)}
            except Exception:  # a crash of the harness itself is never a verdict
                out_c = {"inconclusive": "harness error: " + traceback.format_exc()[-1500:]}
            out_c["idx"] = idx
            out_c["desc"] = desc
            if started[idx] >= 1:
                out_c.setdefault("counters", {})["cases_retried_after_interpreter_crash"] = 1
            emit(jsonable(out_c))
    except Inconclusive as e:
        error = str(e)
    except Exception:
        error = traceback.format_exc()[-3000:]
    finally:
        shutil.rmtree(tmp, ignore_errors=True)
    emit({"finished": True, "error": error, "n_cases_total": n_total})
    fh.close()
    return 0


# --------------------------------------------------------------------------- known findings
def load_known():
    p = VERIF / "known_findings.json"
    if not p.exists():
        return []
    return json.loads(p.read_text()).get("findings", [])


# --------------------------------------------------------------------------- main runner
def run_property(pid: str, tier: str, seed: int, replay: str | None = None) -> int:
    t0 = time.time()
    mod = load_prop(pid)
    outdir = VERIF / "out" / (pid if repo_path() == Path("/repo") else f"alt_{pid}")
    outdir.mkdir(parents=True, exist_ok=True)
    env = dict(os.environ)
    env.update(
        PYTHONHASHSEED="0",
        PYTHONDONTWRITEBYTECODE="1",
        PYTHONPATH=f"{repo_path()}:{VERIF}",
        VERIF_TIER=tier,
        OMP_NUM_THREADS="1",
        OPENBLAS_NUM_THREADS="1",
        MKL_NUM_THREADS="1",
    )
    env.pop("BLACK_IT_VERIF", None)

    if replay is not None:
        return replay_case(mod, pid, replay)

    nshards = int(getattr(mod, "SHARDS", {"quick": NCPU, "thorough": NCPU})[tier])
    timeout = getattr(mod, "SHARD_WATCHDOG", {"quick": 1500, "thorough": 10800})[tier] + 30
    tmp = Path(tempfile.mkdtemp(prefix=f"verif_run_{pid}_"))

    def launch(s_):
        out_ = tmp / f"shard{s_}.jsonl"
        log_ = open(tmp / f"shard{s_}.log", "a")  # noqa: SIM115
        p_ = subprocess.Popen(  # noqa: S603
            [PY, "-m", "vlib.core", "--shard", pid, tier, str(seed), str(s_), str(nshards), str(out_)],
            cwd=str(VERIF), env=env, stdout=log_, stderr=subprocess.STDOUT,
        )
        return p_, out_, log_

    def read(out_):
        recs, fin = [], None
        if out_.exists():
            for line in out_.read_text().splitlines():
                try:
                    rec = json.loads(line)
                except Exception:  # noqa: BLE001
                    continue
                if rec.get("finished"):
                    fin = rec
                elif "idx" in rec:
                    recs.append(rec)
        return recs, fin

    procs = {s_: launch(s_) for s_ in range(nshards)}
    restarts = Counter()
    inconclusive = []
    cases = []
    deadline = time.time() + timeout
    pending = set(procs)
    while pending:
        for s_ in sorted(pending):
            p_, out_, log_ = procs[s_]
            try:
                p_.wait(timeout=0.2)
            except subprocess.TimeoutExpired:
                if time.time() > deadline:
                    p_.kill()
                    p_.wait()
                    log_.close()
                    inconclusive.append(f"shard {s_}: watchdog fired")
                    cases.extend(read(out_)[0])
                    pending.discard(s_)
                continue
            log_.close()
            recs, fin = read(out_)
            if fin is None and restarts[s_] < 4:
                restarts[s_] += 1   # the interpreter died (e.g. a segfault in a third-party library): resume where it stopped
                procs[s_] = launch(s_)
                continue
            pending.discard(s_)
            cases.extend(recs)
            if fin is None:
                tail = (tmp / f"shard{s_}.log").read_text()[-1500:]
                inconclusive.append(f"shard {s_}: no result after {restarts[s_]} restarts (exit {p_.returncode}): {tail}")
            elif fin.get("error"):
                inconclusive.append(f"shard {s_}: {fin['error'][-800:]}")
    shutil.rmtree(tmp, ignore_errors=True)
    cases.sort(key=lambda c: c["idx"])

    # ---- merge
    counters = Counter()
    evaluations = 0
    nontrivial = set()
    violations = []
    samples = []
    skipped = 0
    for c in cases:
        evaluations += int(c.get("evals", 1))
        skipped += int(c.get("skipped", 0) or 0)
        for k, v in (c.get("counters") or {}).items():
            counters[k] += v
        nt = c.get("nontrivial")
        if nt is True:
            nontrivial.add(jhash(c["desc"]))
        elif isinstance(nt, list):
            nontrivial.update(nt)
        if c.get("inconclusive"):
            inconclusive.append(f"case {c['idx']}: {c['inconclusive']}")
        for v in c.get("violations") or []:
            v = dict(v)
            v["case"] = c["desc"]
            violations.append(v)
        if "sample" in c and len(samples) < 6:
            samples.append({"case": c["desc"], "observed": c["sample"]})
    merged = {"cases": cases, "counters": counters}
    if hasattr(mod, "finalize"):
        try:
            extra = mod.finalize(merged, tier) or []
            for v in extra:
                violations.append(v)
        except Inconclusive as e:
            inconclusive.append(str(e))
    if not samples and cases:
        samples = [{"case": c["desc"]} for c in cases[:3]]

    for name, minimum in getattr(mod, "REQUIRED_COUNTERS", {}).items():
        need = minimum[tier] if isinstance(minimum, dict) else minimum
        if counters.get(name, 0) < need:
            inconclusive.append(f"monitor counter {name}={counters.get(name, 0)} < {need}: deciding monitor not reached")
    if evaluations == 0:
        inconclusive.append("no case was evaluated")

    # ---- classify against known findings
    known = [k for k in load_known() if k.get("property") == pid and k.get("status") == "known"]
    known_ids = {}
    for k in known:
        for mname in ([k["mechanism"]] if "mechanism" in k else []) + list(k.get("mechanisms", [])):
            known_ids[mname] = k
    hit = Counter()
    fresh = []
    for v in violations:
        mech = v.get("mechanism")
        if mech is None and hasattr(mod, "classify"):
            try:
                mech = mod.classify(v)
            except Exception:
                mech = None
        if mech is not None and mech in known_ids:
            hit[mech] += 1
        else:
            fresh.append(v)

    # ---- report
    by_entry = {}
    for mech, n in sorted(hit.items()):
        e = known_ids[mech]
        by_entry.setdefault(id(e), [e, [], 0])
        by_entry[id(e)][1].append(mech)
        by_entry[id(e)][2] += n
    for e, mechs, n in by_entry.values():
        label = mechs[0] if len(mechs) == 1 else f"{len(mechs)} listed mechanisms, e.g. {mechs[0]}"
        print(f"KNOWN-FINDING: property={pid} {e['what']} [mechanism={label}; {n} witness(es) this run]")
    rc = 0
    seen_msgs = set()
    nfiles = 0
    for v in fresh:
        key = v.get("msg", "")[:120]
        if key in seen_msgs and nfiles >= 3:
            continue
        seen_msgs.add(key)
        if nfiles >= 25:
            break
        path = outdir / f"replay_{tier}_s{seed}_{nfiles}.json"
        path.write_text(json.dumps(jsonable({"property": pid, "tier": tier, "seed": seed, **v}), indent=1))
        print(f"VIOLATION property={pid} replay={path}")
        print(f"  what: {v.get('msg', '')[:400]}")
        nfiles += 1
    if fresh:
        rc = 1
    if inconclusive and rc == 0:
        for r in inconclusive[:4]:
            print(f"INCONCLUSIVE property={pid} reason={r[-700:]}")
        rc = 2

    level = mod.LEVEL
    cov = {
        "evaluations": evaluations,
        "distinct_nontrivial": len(nontrivial),
        "rule": mod.RULE,
        "samples": samples,
        "skipped": skipped,
        "monitor_counters": dict(sorted(counters.items())),
        "known_findings_hit": dict(hit),
        "violations_unlisted": len(fresh),
        "violations_unlisted_by_kind": dict(Counter((v.get("mechanism") or v.get("msg", "")[:90]) for v in fresh).most_common(60)),
        "inconclusive_reasons": inconclusive[:10],
        "shards": nshards,
        "tree": str(repo_path()),
    }
    if hasattr(mod, "coverage_extra"):
        try:
            cov.update(mod.coverage_extra(merged, tier))
        except Exception as e:  # noqa: BLE001
            cov["coverage_extra_error"] = repr(e)
    ev = {
        "property_id": pid,
        "tier": tier,
        "seed": seed,
        "level": level,
        "coverage": jsonable(cov),
        "assumptions": list(getattr(mod, "ASSUMPTIONS", [])),
        "wall_s": round(time.time() - t0, 2),
        "violations": len(fresh),
        "verdict": {0: "held on what was observed", 1: "violated", 2: "inconclusive"}[rc],
    }
    # evidence/ describes /repo itself; runs against another tree (self-tests, seeded changes) write elsewhere
    evdir = VERIF / "evidence" if repo_path() == Path("/repo") else VERIF / "out" / "alt_evidence"
    evdir.mkdir(parents=True, exist_ok=True)
    (evdir / f"{pid}.json").write_text(json.dumps(ev, indent=1, sort_keys=True) + "\n")
    print(
        f"{pid} {tier} seed={seed}: evaluations={evaluations} distinct_nontrivial={len(nontrivial)} "
        f"violations={len(fresh)} known={sum(hit.values())} skipped={skipped} wall={ev['wall_s']}s -> {ev['verdict']}",
    )
    return rc


def replay_case(mod, pid: str, path: str) -> int:
    bind_repo()
    data = json.loads(Path(path).read_text())
    desc = data["case"]
    tmp = Path(tempfile.mkdtemp(prefix=f"verif_replay_{pid}_"))
    try:
        out = mod.run_case(desc, Ctx(data.get("tier", "quick"), int(data.get("seed", 0)), tmp)) or {}
    finally:
        shutil.rmtree(tmp, ignore_errors=True)
    vs = out.get("violations") or []
    print(json.dumps(jsonable({"case": desc, "violations": vs, "counters": out.get("counters")}), indent=1)[:6000])
    if vs:
        print(f"VIOLATION property={pid} replay={path}")
        return 1
    print(f"{pid}: replayed case shows no violation on this tree")
    return 0


if __name__ == "__main__":
    if len(sys.argv) > 1 and sys.argv[1] == "--shard":
        _, _, pid_, tier_, seed_, s_, n_, out_ = sys.argv
        sys.exit(shard_main(pid_, tier_, int(seed_), int(s_), int(n_), out_))
    sys.exit("use ./check")
