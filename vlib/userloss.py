"""User-defined losses handed to the calibrator (importable, picklable)."""
from __future__ import annotations

import numpy as np

from black_it.loss_functions.minkowski import MinkowskiLoss


class TiedLoss(MinkowskiLoss):
    """A coarse user loss: the order of magnitude of the Minkowski distance.  Many rows get exactly equal losses, and a
    distance whose mantissa starts with 9 is reported as NaN ("could not be evaluated") - both legitimate for a user loss."""

    def compute_loss(self, sim_data_ensemble, real_data):
        v = float(super().compute_loss(sim_data_ensemble, real_data))
        if not np.isfinite(v) or v <= 0:
            return v
        e = np.floor(np.log10(v))
        if v / 10.0**e >= 9.0:
            return float("nan")
        return float(e)


class SentinelLoss(MinkowskiLoss):
    """Minkowski distance, except that two sentinel distances stand for evaluations that produced no finite loss."""

    INF, NAN = 1234.5, 4321.5

    def compute_loss(self, sim_data_ensemble, real_data):
        v = float(super().compute_loss(sim_data_ensemble, real_data))
        if v == self.INF:
            return float("inf")
        if v == self.NAN:
            return float("nan")
        return v


class RawValueLoss(MinkowskiLoss):
    """A signed user loss (log-likelihood style): the mean of the simulated values, which may be negative."""

    def compute_loss(self, sim_data_ensemble, real_data):
        return float(np.mean(np.asarray(sim_data_ensemble, dtype=float)))
