"""Calibrator configurations (descriptor first) and builders for the real objects."""
from __future__ import annotations

import numpy as np

from vlib import gen as G
from vlib import lossgen as LG
from vlib import models as M

LOSS_KINDS = ["minkowski", "msm", "fourier", "gsl", "likelihood"]
SAFE_FILTERS = [None, None, "affine", "cumsum", "square"]  # no sparse solve: bitwise comparisons stay meaningful


def gen_config(rng, *, kinds=None, scheduler=None, loss_kinds=None, max_params=4, max_bs=3, n_samplers=None, model="plain",
               max_points=40, ensemble=None, conv=None, params=None, square=False):
    P = int(rng.integers(1, max_params + 1)) if params is None else int(params)
    sd = G.gen_space(rng, dims=P, max_points=max_points)
    D = int(rng.integers(1, 4)) if model in ("plain", "mut", "slow", "globalrng") else (int(rng.integers(1, 3)) if model == "huge" else 1)
    lk = str(rng.choice(loss_kinds or LOSS_KINDS))
    n_lo = max(12, -(-(P + M.HEADER) // D))
    N = int(rng.integers(n_lo, n_lo + 14))
    if square:
        # as many simulated periods as variables: the series of one member is a square array (plain model, Minkowski-type losses)
        D = N = int(rng.integers(4, 7))
    loss = LG.gen_loss_desc(rng, lk, D, N)
    if loss.get("filters") is not None:
        fl = []
        for _ in range(D):
            k = SAFE_FILTERS[int(rng.integers(len(SAFE_FILTERS)))]
            fl.append(None if k is None else (["affine", float(np.round(rng.normal(), 2)), float(np.round(rng.normal(), 2))] if k == "affine" else [k]))
        loss["filters"] = fl
    E = int(rng.integers(1, 4)) if ensemble is None else ensemble
    lineup = G.gen_lineup(rng, n=n_samplers, kinds=kinds, max_bs=max_bs)
    sched = scheduler or str(rng.choice(["list", "list", "rr"]))
    cfg = {
        "space": sd, "P": P, "D": D, "N": N, "E": E, "loss": loss, "lineup": lineup, "scheduler": sched, "model": model,
        "seed": int(rng.choice([0, 0, 1, 2**32 - 2])) if rng.random() < 0.2 else int(rng.integers(0, 2**31)), "real_seed": int(rng.integers(0, 2**31)), "conv": conv,
        "sim_length_differs": bool(lk in ("msm", "likelihood") and rng.random() < 0.3),
    }
    cfg["real_len_delta"] = int(rng.choice([3, -3, 5]))   # real series longer or SHORTER than the simulated length
    if sched == "rl":
        cfg["rl"] = {"alpha": float(rng.choice([-1, 0.1, 0.5])), "eps": float(rng.choice([0.0, 0.1, 1.0])), "init": float(rng.choice([0.0, 0.05]))}
    return cfg


def real_data(cfg):
    r = np.random.default_rng(cfg["real_seed"])
    n = cfg["N"] + (cfg.get("real_len_delta", 3) if cfg["sim_length_differs"] else 0)
    rd = r.normal(size=(n, cfg["D"]))
    for (i, j, v) in cfg.get("real_nonfinite", []):   # missing / overflowing observations
        rd[i % n, j % cfg["D"]] = float(v)
    return rd


def build_samplers(cfg, ctor_seed_shift=0):
    out = []
    for d in cfg["lineup"]:
        seed = d["seed"] if ctor_seed_shift == 0 else (None if ctor_seed_shift is None else (d["seed"] + ctor_seed_shift) % 2**31)
        out.append(G.build_sampler(d, seed_override=seed))
    for (i, j) in cfg.get("alias", []):     # the same sampler OBJECT appears twice in the line-up
        out[j] = out[i]
    return out


def build_scheduler(cfg, samplers):
    from black_it.schedulers.round_robin import RoundRobinScheduler

    if cfg["scheduler"] == "rr":
        # the user may seed the scheduler it builds - e.g. with the same number as the calibrator ("one seed everywhere")
        return RoundRobinScheduler(samplers, random_state=cfg.get("sched_ctor_seed"))
    if cfg["scheduler"] == "rl":
        from black_it.schedulers.rl.agents.epsilon_greedy import MABEpsilonGreedy
        from black_it.schedulers.rl.envs.mab import MABCalibrationEnv
        from black_it.schedulers.rl.rl_scheduler import RLScheduler

        n = len(samplers)
        agent = MABEpsilonGreedy(n_actions=n, alpha=cfg["rl"]["alpha"], eps=cfg["rl"]["eps"], initial_values=cfg["rl"]["init"])
        env = MABCalibrationEnv(nb_samplers=n)
        return RLScheduler(samplers, agent=agent, env=env, random_state=cfg.get("sched_ctor_seed"))
    raise ValueError(cfg["scheduler"])


def model_for(cfg):
    return M.WITNESS[(cfg["model"], cfg["D"])]


def build_calibrator(cfg, *, n_jobs=1, verbose=False, folder=None, ctor_seed_shift=0, model=None, loss=None, keep=None):
    from black_it.calibrator import Calibrator

    samplers = build_samplers(cfg, ctor_seed_shift)
    if keep is not None:
        keep["samplers"] = samplers     # the very list object handed to the library
    kw = {"samplers": samplers} if cfg["scheduler"] == "list" else {"scheduler": build_scheduler(cfg, samplers)}
    rd = real_data(cfg)
    return Calibrator(
        loss_function=loss if loss is not None else LG.build_loss(cfg["loss"]),
        real_data=rd,
        model=model if model is not None else model_for(cfg),
        parameters_bounds=np.array(cfg["space"]["bounds"], dtype=float),
        parameters_precision=np.array(cfg["space"]["precision"], dtype=float),
        ensemble_size=cfg["E"],
        sim_length=cfg["N"] if cfg["sim_length_differs"] else None,
        convergence_precision=cfg.get("conv"),
        verbose=verbose,
        saving_folder=folder,
        random_state=cfg["seed"],
        n_jobs=n_jobs,
        **kw,
    )


def stateful(kind):
    return kind in ("Halton", "RSequence", "ParticleSwarm", "CORS", "BestBatch", "RandomForest", "XGBoost", "GaussianProcess")
