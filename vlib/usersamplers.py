"""User-defined sampler classes (module level, so checkpoints can pickle them). Import only after core.bind_repo()."""
from __future__ import annotations

import numpy as np
from black_it.samplers.base import BaseSampler


class CornerSampler(BaseSampler):
    """Draws random corners/edges of the grid."""

    def sample_batch(self, batch_size, search_space, existing_points, existing_losses):
        out = np.zeros((batch_size, search_space.dims))
        for j, g in enumerate(search_space.param_grid):
            out[:, j] = g[self.random_generator.integers(0, len(g), size=batch_size)]
        return out


class MidSampler(CornerSampler):
    """A second user class (distinct name)."""


from black_it.samplers.halton import HaltonSampler  # noqa: E402
from black_it.samplers.random_uniform import RandomUniformSampler  # noqa: E402


class WideHalton(HaltonSampler):
    """A user class derived from a built-in one (used next to its parent: two classes, two ids)."""


class OtherHalton(HaltonSampler):
    """A sibling of WideHalton."""


class NamedSampler(RandomUniformSampler):
    """A user class that happens to carry an attribute called `name` (here: the name of ANOTHER registered class)."""

    def __init__(self, *a, name="HaltonSampler", **k):
        super().__init__(*a, **k)
        self.name = name


class ÉchantillonneurLocal(CornerSampler):  # noqa: PLC2401
    """A class whose (valid) name is not ASCII."""


from black_it.schedulers.round_robin import RoundRobinScheduler  # noqa: E402


class GrowingRoundRobin(RoundRobinScheduler):
    """A user scheduler whose line-up can be extended in place."""

    def add_sampler(self, s_):
        self._samplers = (*self._samplers, s_)


from black_it.loss_functions.minkowski import MinkowskiLoss  # noqa: E402
from vlib.models import InjectedFault, InjectedInterrupt  # noqa: E402


class FailingMinkowski(MinkowskiLoss):
    """Minkowski loss that raises InjectedFault at its k-th evaluation (k=None: never)."""

    def __init__(self, k=None, interrupt=False, kind=None, inside=False, **kw):
        super().__init__(**kw)
        self.k = k
        self.calls = 0
        self.interrupt = interrupt
        self.kind = kind
        self.inside = inside       # raise from within the evaluation (at the last coordinate) instead of before it
        self._arm = False

    def _fault(self, i):
        from vlib.models import make_fault

        if self.kind is not None:
            return make_fault(self.kind, f"loss call {i}")
        return (InjectedInterrupt if self.interrupt else InjectedFault)(f"loss call {i}")

    def compute_loss(self, sim, real):
        i = self.calls
        self.calls += 1
        if self.k is not None and i == self.k:
            if not self.inside:
                raise self._fault(i)
            self._arm, self._coord, self._last = True, 0, real.shape[1] - 1
        try:
            return super().compute_loss(sim, real)
        finally:
            self._arm = False

    def compute_loss_1d(self, sim, real):
        if self._arm:
            j = self._coord
            self._coord += 1
            if j == self._last:
                raise self._fault(self.calls - 1)
        return super().compute_loss_1d(sim, real)
