"""Instrumentation applied from outside the repository (no source hooks): wrappers, draw log, digests."""
from __future__ import annotations

import functools
import hashlib

import numpy as np


# --------------------------------------------------------------------------- draw log
class _LoggingGenerator(np.random.Generator):
    """A numpy Generator that logs what was asked of it and then delegates (stream unchanged)."""

    _verif_log = None

    def integers(self, low, high=None, *a, **k):
        if self._verif_log is not None:
            lo, hi = (0, low) if high is None else (low, high)
            try:
                self._verif_log.append(("integers", int(lo), int(hi), k.get("size", a[0] if a else None)))
            except Exception:  # noqa: BLE001
                self._verif_log.append(("integers", repr(lo), repr(hi), None))
        return super().integers(low, high, *a, **k)

    def random(self, *a, **k):
        if self._verif_log is not None:
            self._verif_log.append(("random", k.get("size", a[0] if a else None)))
        return super().random(*a, **k)

    def choice(self, a, *args, **k):
        if self._verif_log is not None:
            self._verif_log.append(("choice", np.size(a) if not np.isscalar(a) else int(a)))
        return super().choice(a, *args, **k)


class DrawLog:
    """Context manager: every generator created by BaseSeedable while active logs its draws into .events."""

    def __init__(self):
        self.events = []

    def __enter__(self):
        import black_it.utils.seedable as sd

        self._sd = sd
        self._orig = sd.default_rng
        events = self.events

        def factory(seed=None):
            g = _LoggingGenerator(np.random.PCG64(seed))
            g._verif_log = events
            return g

        sd.default_rng = factory
        return self

    def __exit__(self, *exc):
        self._sd.default_rng = self._orig
        return False


# --------------------------------------------------------------------------- digests
def digest(a) -> str:
    a = np.ascontiguousarray(a)
    return hashlib.sha1(str(a.dtype).encode() + str(a.shape).encode() + a.tobytes()).hexdigest()


def same_array(a, b) -> bool:
    """dtype, shape and bytes equal (NaN-safe, distinguishes -0.0)."""
    a, b = np.asarray(a), np.asarray(b)
    return a.dtype == b.dtype and a.shape == b.shape and np.ascontiguousarray(a).tobytes() == np.ascontiguousarray(b).tobytes()


# --------------------------------------------------------------------------- method wrappers
class Wrap:
    """Install pre/post observers on a method of the real class; restore on exit. Counts evaluations."""

    def __init__(self, owner, name, pre=None, post=None):
        self.owner, self.name, self.pre, self.post = owner, name, pre, post
        self.calls = 0

    def __enter__(self):
        self.own = self.name in self.owner.__dict__
        self.orig = self.owner.__dict__[self.name] if self.own else getattr(self.owner, self.name)
        raw = self.orig
        is_static = isinstance(raw, staticmethod)
        is_class = isinstance(raw, classmethod)
        fn = raw.__func__ if (is_static or is_class) else raw
        me = self

        @functools.wraps(fn)
        def wrapper(*a, **k):
            me.calls += 1
            tok = me.pre(*a, **k) if me.pre else None
            try:
                res = fn(*a, **k)
            except BaseException as e:
                if me.post:
                    me.post(tok, None, e, *a, **k)
                raise
            if me.post:
                me.post(tok, res, None, *a, **k)
            return res

        new = staticmethod(wrapper) if is_static else classmethod(wrapper) if is_class else wrapper
        setattr(self.owner, self.name, new)
        return self

    def __exit__(self, *exc):
        if self.own:
            setattr(self.owner, self.name, self.orig)
        else:
            delattr(self.owner, self.name)
        return False
