"""Canonical state of a calibrator (and of anything it holds) for bit-exact comparison.

Arrays compare by dtype, shape and bytes; generators by bit-generator state; Python scalars with == (True == 1,
3 == 3.0; NaN equals NaN); lists and tuples are the same kind of sequence; objects by class name and attributes.
Fitted third-party estimators held by surrogate samplers are excluded (re-fitted before every use).
"""
from __future__ import annotations

import hashlib
import queue
import threading
import types

import numpy as np

EXCLUDE_ATTRS = {"_classifier", "_xg_regressor", "_gpmodel"}
HISTORY = ["params_samp", "losses_samp", "series_samp", "batch_num_samp", "method_samp"]


def nan_canonical(a):
    """All NaNs are one value: sign bit and payload of a NaN carry no meaning (a text round trip loses them)."""
    a = np.asarray(a)
    if a.dtype.kind == "f" and a.size and np.isnan(a).any():
        a = np.where(np.isnan(a), np.array(np.nan, dtype=a.dtype), a)
    return a


def arr(a):
    a = np.asarray(a)
    c = np.ascontiguousarray(nan_canonical(a))
    return ("arr", str(a.dtype), tuple(a.shape), hashlib.sha1(c.tobytes()).hexdigest())


def canon(o, depth=0, seen=None):
    seen = seen if seen is not None else {}
    if depth > 12:
        return ("deep",)
    if o is None or isinstance(o, (bool, int, float, str, bytes)):
        return o
    if isinstance(o, (np.bool_,)):
        return bool(o)
    if isinstance(o, np.integer):
        return int(o)
    if isinstance(o, np.floating):
        return float(o)
    if isinstance(o, np.ndarray):
        return arr(o)
    if isinstance(o, np.random.Generator):
        return ("gen", canon(o.bit_generator.state, depth + 1, seen))
    if isinstance(o, (list, tuple)):
        return ("seq", [canon(x, depth + 1, seen) for x in o])
    if isinstance(o, dict):
        return ("map", {str(k): canon(v, depth + 1, seen) for k, v in o.items()})
    if isinstance(o, (set, frozenset)):
        return ("set", sorted(repr(canon(x, depth + 1, seen)) for x in o))
    if isinstance(o, queue.Queue):
        return ("queue", [canon(x, depth + 1, seen) for x in list(o.queue)])
    if isinstance(o, threading.Thread):
        return ("thread", bool(o.is_alive()))
    if isinstance(o, (types.FunctionType, types.BuiltinFunctionType, types.MethodType, type)):
        return ("fn", getattr(o, "__module__", "?") + "." + getattr(o, "__qualname__", repr(o)))
    if id(o) in seen:
        return ("ref", seen[id(o)])
    seen[id(o)] = type(o).__name__
    d = getattr(o, "__dict__", None)
    if d is None:
        return ("opaque", type(o).__name__, repr(o)[:80])
    return ("obj", type(o).__name__, {k: (estimator_summary(v) if k in EXCLUDE_ATTRS else canon(v, depth + 1, seen)) for k, v in d.items()})


def estimator_summary(est):
    """A fitted third-party estimator is not compared bit for bit (it is re-fitted before every use), but WHAT it is - its class and
    its constructor parameters, the random seed among them - is part of the sampler's state."""
    if est is None:
        return None
    try:
        params = est.get_params(deep=False)
    except Exception:  # noqa: BLE001
        return ("estimator", type(est).__name__)
    return ("estimator", type(est).__name__, sorted((str(k), repr(v)[:120]) for k, v in params.items()))


def diff(a, b, path=""):
    """List of human-readable differences between two canonical values."""
    out = []
    if isinstance(a, tuple) and isinstance(b, tuple) and a and b and a[0] == b[0]:
        tag = a[0]
        if tag == "arr":
            if a != b:
                out.append(f"{path}: array {a[1]}{list(a[2])} vs {b[1]}{list(b[2])}" + (" (same dtype/shape, different bytes)" if a[1:3] == b[1:3] else ""))
            return out
        if tag == "seq":
            if len(a[1]) != len(b[1]):
                return [f"{path}: sequence length {len(a[1])} vs {len(b[1])}"]
            for i, (x, y) in enumerate(zip(a[1], b[1])):
                out += diff(x, y, f"{path}[{i}]")
            return out
        if tag == "map":
            for k in sorted(set(a[1]) | set(b[1])):
                if k not in a[1] or k not in b[1]:
                    out.append(f"{path}.{k}: present on one side only")
                else:
                    out += diff(a[1][k], b[1][k], f"{path}.{k}")
            return out
        if tag == "obj":
            if a[1] != b[1]:
                return [f"{path}: class {a[1]} vs {b[1]}"]
            return diff(("map", a[2]), ("map", b[2]), path)
        if tag == "gen":
            return diff(a[1], b[1], path + "<generator>")
        if a != b:
            out.append(f"{path}: {a!r} vs {b!r}"[:300])
        return out
    if isinstance(a, float) and isinstance(b, float) and a != a and b != b:
        return out
    if isinstance(a, tuple) != isinstance(b, tuple):
        # a bare sequence may have been persisted as an array or vice versa: report
        return [f"{path}: {str(a)[:120]} vs {str(b)[:120]}"]
    try:
        same = a == b
    except Exception:  # noqa: BLE001
        same = False
    if not same:
        out.append(f"{path}: {a!r} vs {b!r}"[:300])
    return out


def snapshot(cal):
    """Canonical observable state of a Calibrator."""
    s = {
        "ensemble_size": cal.ensemble_size,
        "N": cal.N,
        "D": cal.D,
        "verbose": cal.verbose,
        "convergence_precision": cal.convergence_precision,
        "saving_folder": cal.saving_folder,
        "random_state": cal.random_state,
        "n_jobs": cal.n_jobs,
        "model_name": getattr(cal.model, "__name__", None),
        "real_data": arr(np.asarray(cal.real_data)),
        "bounds": arr(np.asarray(cal.param_grid.parameters_bounds, dtype=float)),
        "precision": arr(np.asarray(cal.param_grid.parameters_precision, dtype=float)),
        "grid": ("seq", [arr(g) for g in cal.param_grid.param_grid]),
        "space_size": cal.param_grid.space_size,
        "n_sampled_params": cal.n_sampled_params,
        "current_batch_index": cal.current_batch_index,
        "generator": canon(cal.random_generator),
        "samplers_id_table": canon(dict(cal.samplers_id_table)),
        "scheduler": canon(cal.scheduler),
        "loss_function": canon(cal.loss_function),
    }
    for h in HISTORY:
        s[h] = arr(getattr(cal, h))
    return ("map", s)


def history_arrays(cal):
    return {h: np.array(getattr(cal, h), copy=True) for h in HISTORY}


def history_equal(a, b):
    """Byte-equality of two history dicts; returns list of differing array names with a short reason."""
    out = []
    for h in HISTORY:
        x, y = np.asarray(a[h]), np.asarray(b[h])
        if x.dtype != y.dtype or x.shape != y.shape:
            out.append(f"{h}: {x.dtype}{list(x.shape)} vs {y.dtype}{list(y.shape)}")
        elif np.ascontiguousarray(nan_canonical(x)).tobytes() != np.ascontiguousarray(nan_canonical(y)).tobytes():
            if x.ndim >= 1 and len(x):
                neq = ~((x == y) | ((x != x) & (y != y)))
                rows = np.where(neq.reshape(len(x), -1).any(axis=1))[0]
                first = int(rows[0]) if len(rows) else -1
                out.append(f"{h}: first differing row {first}: {np.asarray(x[first]).ravel()[:4]} vs {np.asarray(y[first]).ravel()[:4]}")
            else:
                out.append(f"{h}: bytes differ")
    return out
