"""Runtime-monitoring machinery for the black-it properties (see /verif/DESIGN.md)."""
