"""Monitor of a live Calibrator: records, per batch, who was designated, what it returned and the history snapshots.

Installed from outside (class-level wrappers), removed on exit.  The alignment oracle (C02) lives here as well because
several checks (C02, C11, C05) want every run policed by it.
"""
from __future__ import annotations

import copy

import numpy as np

from vlib import models as M
from vlib import state as S
from vlib.hooks import Wrap, same_array


class RunMonitor:
    def __init__(self, cal, snapshots=True):
        self.cal = cal
        self.events = []          # ('next', batch_index_at_time, sampler, position, class name) / ('sample', sampler, array) / ('return', p, l)
        self.snaps = []           # (label, n_sampled_params, history dict)
        self.want_snaps = snapshots
        self._ctx = []

    def snap(self, label):
        if self.want_snaps:
            self.snaps.append((label, int(self.cal.n_sampled_params), S.history_arrays(self.cal)))

    def __enter__(self):
        from black_it.calibrator import Calibrator
        from black_it.samplers.base import BaseSampler

        me = self
        sched_cls = type(self.cal.scheduler)

        def post_next(tok, res, err, sched):
            if sched is not me.cal.scheduler or res is None:
                return
            pos = [i for i, s in enumerate(sched.samplers) if s is res]
            me.events.append(("next", int(me.cal.current_batch_index), res, pos[0] if pos else None, type(res).__name__))
            me.snap(f"batch{me.cal.current_batch_index}")

        def post_sample(tok, res, err, smp, *a, **k):
            if res is not None:
                me.events.append(("sample", smp, np.array(res, copy=True)))

        def post_cal(tok, res, err, cal, *a, **k):
            if cal is not me.cal:
                return
            if res is not None:
                me.events.append(("return", np.array(res[0], copy=True), np.array(res[1], copy=True)))
            else:
                me.events.append(("raised", err))
            me.snap("after_calibrate")

        self._ctx = [Wrap(sched_cls, "get_next_sampler", post=post_next), Wrap(BaseSampler, "sample", post=post_sample),
                     Wrap(Calibrator, "calibrate", post=post_cal)]
        for c in self._ctx:
            c.__enter__()
        return self

    def __exit__(self, *exc):
        for c in reversed(self._ctx):
            c.__exit__(*exc)
        return False

    # ------------------------------------------------------------------ derived views
    def batches(self):
        """[(batch index at the time, sampler object, position, class name, returned array or None)]"""
        out = []
        cur = None
        for e in self.events:
            if e[0] == "next":
                cur = [e[1], e[2], e[3], e[4], None]
                out.append(cur)
            elif e[0] == "sample" and cur is not None and e[1] is cur[1] and cur[4] is None:
                cur[4] = e[2]
            elif e[0] == "raised" and cur is not None:
                # the calibrate() call ended in an exception: the batch that was under way was not completed (nothing of it is recorded)
                if out and out[-1] is cur:
                    out.pop()
                cur = None
        return [tuple(b) for b in out]


def check_alignment(cal, batches, pristine_loss, P, *, rerun_model=None, first_row=0, first_batch=0, counters=None):
    """C02 row oracle on the current history of `cal` for the completed `batches` (those whose rows were recorded).

    Returns list of violation messages.  `batches` = output of RunMonitor.batches() restricted to completed ones;
    rows before `first_row` (recorded before monitoring began) are not re-derived.
    """
    bad = []
    c = counters if counters is not None else {}
    n = int(cal.n_sampled_params)
    lens = {h: len(getattr(cal, h)) for h in S.HISTORY}
    if any(v != n for v in lens.values()):
        return [f"history lengths {lens} differ from the sample counter {n}"]
    ids = list(cal.samplers_id_table.values())
    if len(set(ids)) != len(ids):
        bad.append(f"the sampler id table maps two classes to one id, so a label no longer identifies the designated sampler: {dict(cal.samplers_id_table)}")
    row = first_row
    for bi, (bidx, smp, pos, cname, ret) in enumerate(batches):
        if ret is None:
            bad.append(f"batch {bidx}: designated sampler {cname} never returned a batch although rows were recorded")
            break
        k = len(ret)
        if row + k > n:
            bad.append(f"batch {bidx}: {k} rows proposed but only {n - row} recorded")
            break
        if not same_array(np.asarray(cal.params_samp[row:row + k], dtype=float), np.asarray(ret, dtype=float)):
            bad.append(f"batch {bidx}: recorded parameters differ from what {cname} proposed (rows {row}..{row + k - 1})")
        exp_b = first_batch + bi
        if not np.all(cal.batch_num_samp[row:row + k] == exp_b):
            bad.append(f"batch {bidx}: batch labels {cal.batch_num_samp[row:row + k].tolist()} expected {exp_b}")
        exp_id = cal.samplers_id_table.get(cname)
        if exp_id is None or not np.all(cal.method_samp[row:row + k] == exp_id):
            bad.append(f"batch {bidx}: sampler labels {cal.method_samp[row:row + k].tolist()} but {cname} has id {exp_id}")
        for r in range(k):
            i = row + r
            ser = cal.series_samp[i]
            if ser.shape != (cal.ensemble_size, cal.N, cal.D):
                bad.append(f"row {i}: series shape {ser.shape} != {(cal.ensemble_size, cal.N, cal.D)}")
                continue
            seeds = set()
            for e in range(cal.ensemble_size):
                dec = M.decode(ser[e], P)
                c["members_decoded"] = c.get("members_decoded", 0) + 1
                if dec is None:
                    continue
                theta, seed, nn, pp = dec
                if not same_array(theta, np.asarray(cal.params_samp[i], dtype=float)):
                    bad.append(f"row {i} member {e}: series was simulated at {theta.tolist()} but the row records {cal.params_samp[i].tolist()}")
                    break
                if nn != cal.N:
                    bad.append(f"row {i} member {e}: series simulated with length {nn}, configured {cal.N}")
                    break
                seeds.add(seed)
                if rerun_model is not None:
                    again = rerun_model(theta, cal.N, int(seed))
                    if not same_array(np.asarray(again, dtype=float), np.asarray(ser[e], dtype=float)):
                        bad.append(f"row {i} member {e}: stored series is not what the model returns for (theta, N, seed={int(seed)})")
                        break
            c["distinct_seeds_per_row_max"] = max(c.get("distinct_seeds_per_row_max", 0), len(seeds))
            # loss
            try:
                ref = pristine_loss.compute_loss(np.array(ser, copy=True), np.array(cal.real_data, copy=True))
                got = cal.losses_samp[i]
                c["losses_recomputed"] = c.get("losses_recomputed", 0) + 1
                same = (ref == got) or (ref != ref and got != got)
                if not same:
                    if np.isfinite(ref) and np.isfinite(got) and abs(ref - got) <= 1e-12 * max(1.0, abs(ref)):
                        c["loss_ulp_wobble"] = c.get("loss_ulp_wobble", 0) + 1
                    else:
                        bad.append(f"row {i}: recorded loss {got!r} but the loss function gives {ref!r} on the recorded series")
            except Exception as ex:  # noqa: BLE001
                c["loss_recompute_failed"] = c.get("loss_recompute_failed", 0) + 1
        row += k
    if row != n and not bad:
        bad.append(f"{n} rows recorded but the monitored batches account for {row}")
    return bad


def check_return(cal, ret_p, ret_l):
    bad = []
    ret_p, ret_l = np.asarray(ret_p), np.asarray(ret_l)
    if len(ret_p) != len(cal.params_samp) or len(ret_l) != len(cal.losses_samp):
        return [f"calibrate() returned {len(ret_p)} rows, history has {len(cal.params_samp)}"]
    with np.errstate(invalid="ignore"):
        fin = ret_l[~np.isnan(ret_l)]
        if np.any(fin[1:] < fin[:-1]):
            bad.append("returned losses are not sorted by increasing loss")
    a = sorted((tuple(p.tolist()), repr(float(l))) for p, l in zip(ret_p, ret_l))
    b = sorted((tuple(p.tolist()), repr(float(l))) for p, l in zip(cal.params_samp, cal.losses_samp))
    if a != b:
        bad.append("returned (parameter, loss) pairs are not exactly the recorded ones")
    return bad


def check_prefixes(snaps):
    """Every earlier snapshot must be a byte-prefix of every later one (append-only)."""
    bad = []
    for (la, na, ha), (lb, nb, hb) in zip(snaps, snaps[1:]):
        for h in S.HISTORY:
            x, y = ha[h], hb[h]
            if len(y) < len(x) or not same_array(np.asarray(y[: len(x)]), np.asarray(x)):
                bad.append(f"{h}: rows recorded at '{la}' changed by '{lb}' (history is not append-only)")
    return bad


def pristine(loss):
    return copy.deepcopy(loss)
