"""Models handed to the calibrator (importable, so loky workers can unpickle them).

witness_dK(theta, N, seed) -> (N, K) array that *encodes what it was called with*:
flat cell 0..P-1 = theta (exact), cell P = seed / 2**32 (exact), cell P+1 = N / 2**20 (exact), cell P+2 = P / 64,
remaining cells = default_rng(seed) draws shaped by theta.  From any stored series the oracle can therefore decode which
parameter vector, seed and length produced it and re-run the model to compare bit for bit.
"""
from __future__ import annotations

import os

import numpy as np

HEADER = 3


def _witness(theta, N, seed, D, extreme=None):
    theta = np.asarray(theta, dtype=float).ravel()
    P = len(theta)
    cells = int(N) * D
    out = np.empty(cells)
    rng = np.random.default_rng(int(seed))
    body = rng.normal(size=cells) * (1.0 + abs(theta[0])) + float(np.sum(theta))
    out[:] = body
    if extreme == "huge":
        out[:] = body * 1e300
    elif extreme == "inf":
        out[:] = np.where(body > np.median(body), np.inf, body * 1e300)
    elif extreme == "f32":
        out[:] = body * 1e39
    n_head = min(cells, P + HEADER)
    head = np.concatenate([theta, [int(seed) / 2.0**32, int(N) / 2.0**20, P / 64.0]])
    out[:n_head] = head[:n_head]
    return out.reshape(int(N), D)


def witness_d1(theta, N, seed):
    return _witness(theta, N, seed, 1)


def witness_d2(theta, N, seed):
    return _witness(theta, N, seed, 2)


def witness_d3(theta, N, seed):
    return _witness(theta, N, seed, 3)


def witness_d4(theta, N, seed):
    return _witness(theta, N, seed, 4)


def witness_d5(theta, N, seed):
    return _witness(theta, N, seed, 5)


def witness_d6(theta, N, seed):
    return _witness(theta, N, seed, 6)


def witness_huge_d1(theta, N, seed):
    return _witness(theta, N, seed, 1, "huge")


def witness_huge_d2(theta, N, seed):
    return _witness(theta, N, seed, 2, "huge")


def witness_inf_d1(theta, N, seed):
    return _witness(theta, N, seed, 1, "inf")


def witness_f32_d1(theta, N, seed):
    return _witness(theta, N, seed, 1, "f32")


def _alt(theta, N, seed, D):
    """Same as the plain witness except in part of the parameter space (first coordinate in the upper half of its cell parity)."""
    out = _witness(theta, N, seed, D)
    t0 = float(np.asarray(theta, dtype=float).ravel()[0])
    if int(np.floor(t0 * 7.3)) % 2 == 0:
        flat = out.reshape(-1)
        P = len(np.asarray(theta).ravel())
        flat[P + HEADER:] = flat[P + HEADER:] * 1.5
    return out


def witness_d1_alt(theta, N, seed):
    return _alt(theta, N, seed, 1)


def witness_d2_alt(theta, N, seed):
    return _alt(theta, N, seed, 2)


def witness_d3_alt(theta, N, seed):
    return _alt(theta, N, seed, 3)


witness_d1_alt.__name__ = "witness_d1"
witness_d2_alt.__name__ = "witness_d2"
witness_d3_alt.__name__ = "witness_d3"
ALT = {1: witness_d1_alt, 2: witness_d2_alt, 3: witness_d3_alt}

def _mut(theta, N, seed, D):
    """A model that tidies its parameter vector in place (sorts it) after using it - legitimate user code: the library must
    hand every call its own copy, so nothing it records may change."""
    out = _witness(theta, N, seed, D)
    try:
        theta.sort()
    except (ValueError, AttributeError):
        pass
    return out


def witness_mut_d1(theta, N, seed):
    return _mut(theta, N, seed, 1)


def witness_mut_d2(theta, N, seed):
    return _mut(theta, N, seed, 2)


def witness_mut_d3(theta, N, seed):
    return _mut(theta, N, seed, 3)


def _slow(theta, N, seed, D):
    """Run time depends on the task (every third seed takes ~12 ms longer): with parallel workers tasks finish out of
    submission order, which must not show in what is recorded."""
    import time

    if int(seed) % 3 == 0:
        time.sleep(0.012)
    return _witness(theta, N, seed, D)


def witness_slow_d1(theta, N, seed):
    return _slow(theta, N, seed, 1)


def witness_slow_d2(theta, N, seed):
    return _slow(theta, N, seed, 2)


def witness_slow_d3(theta, N, seed):
    return _slow(theta, N, seed, 3)


def _globalrng(theta, N, seed, D):
    """The most common way users write a stochastic model: seed numpy's process-global generator, then draw from it."""
    out = _witness(theta, N, seed, D)
    np.random.seed(int(seed) % 2**32)
    P = len(np.asarray(theta).ravel())
    flat = out.reshape(-1)
    if len(flat) > P + HEADER:
        flat[P + HEADER:] = np.random.normal(size=len(flat) - P - HEADER) * (1.0 + abs(float(np.asarray(theta).ravel()[0])))
    return out


def witness_globalrng_d1(theta, N, seed):
    return _globalrng(theta, N, seed, 1)


def witness_globalrng_d2(theta, N, seed):
    return _globalrng(theta, N, seed, 2)


def witness_globalrng_d3(theta, N, seed):
    return _globalrng(theta, N, seed, 3)


WITNESS = {
    ("globalrng", 1): witness_globalrng_d1, ("globalrng", 2): witness_globalrng_d2, ("globalrng", 3): witness_globalrng_d3,
    ("slow", 1): witness_slow_d1, ("slow", 2): witness_slow_d2, ("slow", 3): witness_slow_d3,
    ("mut", 1): witness_mut_d1, ("mut", 2): witness_mut_d2, ("mut", 3): witness_mut_d3,
    ("plain", 1): witness_d1, ("plain", 2): witness_d2, ("plain", 3): witness_d3, ("plain", 4): witness_d4, ("plain", 5): witness_d5, ("plain", 6): witness_d6,
    ("huge", 1): witness_huge_d1, ("huge", 2): witness_huge_d2, ("inf", 1): witness_inf_d1, ("f32", 1): witness_f32_d1,
}


def decode(series_row, P):
    """(theta, seed, N) decoded from one ensemble member's series (N, D)."""
    flat = np.asarray(series_row).ravel()
    if len(flat) < P + HEADER:
        return None
    theta = flat[:P].copy()
    seed = flat[P] * 2.0**32
    n = flat[P + 1] * 2.0**20
    p = flat[P + 2] * 64.0
    return theta, seed, n, p


# --------------------------------------------------------------------------- scripted / failing models
class Scripted:
    """k-th call returns a series filled with values[k] (n_jobs=1 only: the counter lives in this process)."""

    __name__ = "scripted_model"

    def __init__(self, values, D=1):
        self.values = list(values)
        self.D = D
        self.calls = 0

    def __call__(self, theta, N, seed):
        v = self.values[min(self.calls, len(self.values) - 1)]
        self.calls += 1
        return np.full((int(N), self.D), float(v))


class Counting:
    """Wraps a model and records every invocation (parameter bytes, seed) in this process (n_jobs=1 only)."""

    def __init__(self, fn):
        self.fn = fn
        self.__name__ = fn.__name__
        self.calls = []

    def __call__(self, theta, N, seed):
        self.calls.append((np.array(theta, dtype=float, copy=True).tobytes(), int(seed), int(N)))
        return self.fn(theta, N, seed)


class InjectedFault(Exception):
    """The exception the fault injectors raise."""


class InjectedInterrupt(KeyboardInterrupt):
    """A fault that is not an Exception subclass (what Ctrl-C during a simulation raises)."""


class InjectedValueError(ValueError):
    """A fault of a class that 'robust' code is tempted to swallow."""


class InjectedArithmetic(ZeroDivisionError):
    """Same, arithmetic family."""


class InjectedTwoArgs(Exception):
    """A user exception whose constructor takes two required arguments (cannot be rebuilt from a message)."""

    def __init__(self, code, params):
        super().__init__(code, params)
        self.code, self.params = code, params


FAULT_KINDS = {"plain": InjectedFault, "value": InjectedValueError, "arith": InjectedArithmetic, "twoargs": InjectedTwoArgs, "interrupt": None, "local": None}
RAISED = []     # the very instances raised in this process (identity is part of "propagates that exception")


def _local_exception_class():
    class LocalFault(Exception):
        """Defined inside a function (like an exception class written in a notebook cell): cannot be pickled by reference."""

    return LocalFault


LOCAL_FAULT = _local_exception_class()


def make_fault(kind, msg):
    if kind == "local":
        e = LOCAL_FAULT(msg)
        RAISED.append(e)
        return e
    if kind == "interrupt":
        e = InjectedInterrupt(msg)
    elif kind == "twoargs":
        e = InjectedTwoArgs(42, msg)
    else:
        e = FAULT_KINDS[kind](msg)
    RAISED.append(e)
    return e


INJECTED = (InjectedFault, InjectedInterrupt, InjectedValueError, InjectedArithmetic, InjectedTwoArgs, LOCAL_FAULT)


class FailAtCall:
    """Witness model that raises InjectedFault at its k-th invocation (counter in this process: n_jobs=1)."""

    def __init__(self, D, k, exc=None, kind=None):
        self.D, self.k, self.calls = D, k, 0
        self.exc = exc or InjectedFault
        self.kind = kind
        self.__name__ = WITNESS[("plain", D)].__name__

    def __call__(self, theta, N, seed):
        i = self.calls
        self.calls += 1
        if i == self.k:
            if self.kind is not None:
                raise make_fault(self.kind, f"model call {i}")
            raise self.exc(f"model call {i}")
        return _witness(theta, N, seed, self.D)


class FailAtSeed:
    """Witness model that raises when handed a given seed (stateless: works inside loky workers)."""

    def __init__(self, D, bad_seed):
        self.D, self.bad_seed = D, int(bad_seed)
        self.__name__ = WITNESS[("plain", D)].__name__

    def __call__(self, theta, N, seed):
        if int(seed) == self.bad_seed:
            raise InjectedFault(f"model seed {int(seed)} pid {os.getpid()}")
        return _witness(theta, N, seed, self.D)
