"""Controlled (token-passing) thread scheduler for the RL scheduler/agent exchange.

Exactly one managed thread runs at a time.  At every scheduling point (queue put/get, session-flag read/write, thread
start/join, thread exit) the running thread hands the token to the thread named by the schedule's choice list (prefix =
replay; beyond the prefix: keep running, i.e. no preemption).  Blocking operations disable the thread until the matching
event; "no thread enabled and not all finished" is a deadlock witness.  A blocking call with a timeout is woken with the
timeout outcome only when nothing else can run.
"""
from __future__ import annotations

import queue as _queue
import threading
import time

WATCHDOG_S = 20.0


class Deadlock(Exception):
    pass


class Unmanaged(Exception):
    """A managed thread stopped making progress outside the primitives the shim owns."""


class Ctl:
    def __init__(self, choices=()):
        self.cv = threading.Condition()
        self.state = {}          # name -> 'ready' | ('blocked', reason, has_timeout) | 'done'
        self.names = {}          # ident -> name
        self.current = None
        self.prefix = list(choices)
        self.trace = []          # (n_enabled, chosen_idx, current_was_enabled)
        self.deadlock = False
        self.deadlock_state = None
        self.timed_out = set()
        self.points = 0
        self.log = []            # shared event log (appended under the token, so totally ordered)

    # -- identity
    def me(self):
        return self.names.get(threading.get_ident())

    def managed(self):
        return threading.get_ident() in self.names

    def register_main(self, name="M"):
        self.names[threading.get_ident()] = name
        self.state[name] = "ready"
        self.current = name

    # -- core
    def _enabled(self):
        return sorted(n for n, s in self.state.items() if s == "ready")

    def _pick(self):
        """Choose who runs next (caller holds cv).

        Candidates: the enabled threads, then the threads blocked in a call *with a timeout* (choosing one of those means
        "its timeout fires now": the peer may be arbitrarily slow, so this is a legitimate interleaving).  The default choice
        (index 0) keeps the current thread running, else the first enabled thread; a timeout fires by default only when
        nothing else can run.
        """
        self.points += 1
        ready = self._enabled()
        timed = sorted(n for n, s in self.state.items() if isinstance(s, tuple) and s[2])
        cur = self.me()
        cur_enabled = cur in ready
        order = ([cur] if cur_enabled else []) + [r for r in ready if r != cur] + [("timeout", n) for n in timed]
        if not order:
            if any(s != "done" for s in self.state.values()):
                self.deadlock = True
                self.deadlock_state = {n: (s if isinstance(s, str) else list(s[:2])) for n, s in self.state.items()}
                self.current = "DEADLOCK"
            else:
                self.current = None
            self.cv.notify_all()
            return
        if len(order) == 1:
            idx = 0
        else:
            k = len(self.trace)
            idx = self.prefix[k] if k < len(self.prefix) else 0
            idx = idx if idx < len(order) else 0
            self.trace.append((len(order), idx, cur_enabled or bool(ready)))
        pick = order[idx]
        if isinstance(pick, tuple):
            n = pick[1]
            self.state[n] = "ready"
            self.timed_out.add(n)
            pick = n
        self.current = pick
        self.cv.notify_all()

    def _wait_turn(self, name):
        t0 = time.monotonic()
        while self.current != name:
            if self.current == "DEADLOCK":
                raise Deadlock()
            if not self.cv.wait(timeout=1.0) and time.monotonic() - t0 > WATCHDOG_S:
                raise Unmanaged(f"thread {name} waited {WATCHDOG_S}s for the token (current={self.current})")

    def yield_point(self, label=None):
        if not self.managed():
            return
        with self.cv:
            name = self.me()
            self._pick()
            self._wait_turn(name)

    def block(self, reason, has_timeout=False):
        """Disable the calling thread until unblock(reason); returns True if woken by the timeout."""
        with self.cv:
            name = self.me()
            self.state[name] = ("blocked", reason, has_timeout)
            self._pick()
            self._wait_turn(name)
            if name in self.timed_out:
                self.timed_out.discard(name)
                return True
            return False

    def unblock(self, reason):
        for n, s in self.state.items():
            if isinstance(s, tuple) and s[1] == reason:
                self.state[n] = "ready"

    def spawn(self, name):
        with self.cv:
            self.state[name] = "ready"

    def thread_started(self, name):
        with self.cv:
            self.names[threading.get_ident()] = name
            self._wait_turn(name)

    def finished(self):
        with self.cv:
            name = self.me()
            self.state[name] = "done"
            self.unblock(("join", name))
            self._pick()

    def record(self, *event):
        self.log.append(event)


class GQueue:
    """queue.Queue surface on top of the controller."""

    def __init__(self, ctl, name):
        self.ctl, self.name, self.items = ctl, name, []
        self.unfinished = 0

    def put(self, item, block=True, timeout=None):
        self.ctl.yield_point(("put", self.name))
        self.items.append(item)
        self.unfinished += 1
        self.ctl.record("qput", self.name, self.ctl.me(), item)
        with self.ctl.cv:
            self.ctl.unblock(("get", self.name))
        # a second scheduling point AFTER the item became visible: the consumer may run before the producer's next statement
        # (needed to reach both orders of "producer writes shared state after put" vs "consumer reads it after get")
        self.ctl.yield_point(("put_done", self.name))

    def put_nowait(self, item):
        self.put(item, block=False)

    def get(self, block=True, timeout=None):
        self.ctl.yield_point(("get", self.name))
        if not block:
            if not self.items:
                raise _queue.Empty
        else:
            while not self.items:
                if self.ctl.block(("get", self.name), has_timeout=timeout is not None):
                    raise _queue.Empty
        item = self.items.pop(0)
        self.ctl.record("qget", self.name, self.ctl.me(), item)
        return item

    def get_nowait(self):
        return self.get(block=False)

    def empty(self):
        self.ctl.yield_point(("empty", self.name))
        return not self.items

    def qsize(self):
        self.ctl.yield_point(("qsize", self.name))
        return len(self.items)

    def full(self):
        return False

    def task_done(self):
        self.unfinished -= 1

    def join(self):
        while self.unfinished > 0:
            self.ctl.block(("qjoin", self.name))


class GThread:
    """threading.Thread stand-in; created through FakeThreading(ctl).Thread."""

    def __init__(self, ctl, target=None, name=None, args=(), kwargs=None, daemon=None, group=None):
        self.ctl = ctl
        ctl._nthreads = getattr(ctl, "_nthreads", 0) + 1
        self.name = f"A{ctl._nthreads}"
        self.target, self.args, self.kwargs = target, args, kwargs or {}
        self.daemon = True
        self.error = None
        self._t = threading.Thread(target=self._run, daemon=True, name=f"verif-{self.name}")
        self.started = False

    def _run(self):
        try:
            self.ctl.thread_started(self.name)
        except (Deadlock, Unmanaged):
            return
        try:
            self.target(*self.args, **self.kwargs)
        except Deadlock:
            return
        except Unmanaged:
            return
        except BaseException as e:  # noqa: BLE001  the agent thread died: record, it is an event the oracle judges
            self.error = e
            self.ctl.record("thread_error", self.name, repr(e))
        finally:
            if not self.ctl.deadlock:
                try:
                    self.ctl.finished()
                except (Deadlock, Unmanaged):
                    pass

    def start(self):
        self.started = True
        self.ctl.spawn(self.name)
        self._t.start()
        self.ctl.yield_point(("start", self.name))

    def join(self, timeout=None):
        self.ctl.yield_point(("join", self.name))
        while self.ctl.state.get(self.name) != "done":
            if self.ctl.block(("join", self.name), has_timeout=timeout is not None):
                return

    def is_alive(self):
        return self.started and self.ctl.state.get(self.name) != "done"


class FakeThreading:
    """Replacement for the `threading` name inside rl_scheduler."""

    def __init__(self, ctl):
        self._ctl = ctl
        self.created = []

    def Thread(self, *a, **k):  # noqa: N802
        t = GThread(self._ctl, *a, **k)
        self.created.append(t)
        return t

    def __getattr__(self, item):
        return getattr(threading, item)


def explore(run_once, bound, max_runs=None):
    """Depth-first over choice lists with a preemption bound. run_once(prefix) -> (trace, result).

    Yields (prefix, trace, result) for every schedule explored.
    """
    stack = [([], 0)]
    n = 0
    while stack:
        prefix, used = stack.pop()
        trace, result = run_once(prefix)
        n += 1
        yield prefix, trace, result
        if max_runs is not None and n >= max_runs:
            return
        u = used
        for k in range(len(prefix), len(trace)):
            n_en, idx, cur_en = trace[k]
            for alt in range(idx + 1, n_en):
                cost = 1 if cur_en else 0
                if u + cost <= bound:
                    stack.append(([c[1] for c in trace[:k]] + [alt], u + cost))
