"""Driver executed under strace by C06: performs one real save into a prepared folder."""
import pickle
import sys

backend, folder, argfile = sys.argv[1:4]
if backend == "json":
    from black_it.utils.json_pandas_checkpointing import save_calibrator_state
else:
    from black_it.utils.sqlite3_checkpointing import save_calibrator_state
with open(argfile, "rb") as f:
    args = pickle.load(f)
sys.stdout.write("READY\n")
sys.stdout.flush()
try:
    save_calibrator_state(folder, *args)
except BaseException as e:  # noqa: BLE001
    sys.stdout.write(f"RAISED {type(e).__name__}: {e}\n")
    sys.stdout.flush()
    sys.exit(7)
sys.stdout.write("SAVED\n")
