"""Independent references for the five built-in losses, written from the documented definitions.

Nothing here imports black_it.  Different algorithms are used where possible (O(n^2) DFT, explicit loops,
words as tuples).  `build_loss` (the only place that touches black_it) lives in lossgen.
"""
from __future__ import annotations

import cmath
import math
from collections import Counter

import numpy as np

EPS_GSL = 0.00001


# --------------------------------------------------------------------------- filters (picklable)
class Affine:
    def __init__(self, a, b):
        self.a, self.b = float(a), float(b)

    def __call__(self, x):
        return self.a * np.asarray(x) + self.b

    def __repr__(self):
        return f"Affine({self.a!r},{self.b!r})"


class CumSum:
    def __call__(self, x):
        return np.cumsum(np.asarray(x, dtype=float))

    def __repr__(self):
        return "CumSum()"


class Square:
    def __call__(self, x):
        return np.asarray(x, dtype=float) ** 2

    def __repr__(self):
        return "Square()"


class Demean:
    """A filter that uses a statistic of the whole series (so it matters that it is applied member by member)."""

    def __call__(self, x):
        x = np.asarray(x, dtype=float)
        return x - x.mean()

    def __repr__(self):
        return "Demean()"


CUMSUM, SQUARE, DEMEAN = CumSum(), Square(), Demean()   # one function object per kind: shared by all coordinates that use it


def ref_hp_trend(y, lam=1600.0):
    from scipy.linalg import solveh_banded

    n = len(y)
    d0 = np.full(n, 6.0)
    d0[[0, -1]] = 1.0
    if n > 3:
        d0[[1, -2]] = 5.0
    else:
        d0 = np.array([1.0, 4.0, 1.0])
    d1 = np.full(n - 1, -4.0)
    d1[[0, -1]] = -2.0
    ab = np.zeros((3, n))
    ab[0] = 1 + lam * d0
    ab[1, : n - 1] = lam * d1
    ab[2, : n - 2] = lam
    return solveh_banded(ab, np.asarray(y, dtype=float), lower=True)


def apply_filter_ref(spec, x):
    """Reference semantics of a filter descriptor."""
    x = np.asarray(x, dtype=float)
    if spec is None:
        return x
    kind = spec[0]
    if kind == "affine":
        return spec[1] * x + spec[2]
    if kind == "cumsum":
        return np.cumsum(x)
    if kind == "square":
        return x * x
    if kind == "demean":
        return x - x.mean()
    if kind == "hp_cycle":
        return x - ref_hp_trend(x)
    if kind == "log_hp":
        return np.log(x) - ref_hp_trend(np.log(x))
    if kind == "diff_log_demean":
        lx = np.log(x)
        d = np.concatenate([[0.0], lx[1:] - lx[:-1]])
        return d - d.mean()
    raise ValueError(spec)


# --------------------------------------------------------------------------- generic combination
def combine(one_d, sim, real, weights, filters):
    """sum_i w_i * one_d(filtered sim[:, :, i], real[:, i]); weights default 1/D; filters on simulated only."""
    E, N, D = sim.shape
    w = [1.0 / D] * D if weights is None else list(weights)
    total = 0.0
    per_coord = []
    for i in range(D):
        col = [apply_filter_ref(None if filters is None else filters[i], sim[e, :, i]) for e in range(E)]
        v = one_d(np.array(col), real[:, i])
        per_coord.append(v)
        total += w[i] * v
    return total, per_coord


# --------------------------------------------------------------------------- Minkowski
def minkowski_1d(p):
    def f(sim, real):
        mean = np.zeros(sim.shape[1])
        for e in range(sim.shape[0]):
            mean = mean + sim[e]
        mean = mean / sim.shape[0]
        if math.isinf(p):
            return float(np.max(np.abs(mean - real)))      # Chebyshev distance, the p -> inf limit
        return float(np.sum(np.abs(mean - real) ** p) ** (1.0 / p))

    return f


# --------------------------------------------------------------------------- moments
def _central(x, k):
    m = x.mean()
    return float(np.mean((x - m) ** k))


def raw_moments(x):
    """(mean, std, skew, excess kurtosis, acf1..5) by explicit formulas; 0/0 -> nan."""
    x = np.asarray(x, dtype=float)
    n = len(x)
    m = float(np.sum(x) / n)
    d = x - m
    m2 = float(np.sum(d * d) / n)
    with np.errstate(all="ignore"):
        sk = float(np.sum(d**3) / n) / m2**1.5 if m2 > 0 else float("nan")
        ku = float(np.sum(d**4) / n) / m2**2 - 3.0 if m2 > 0 else float("nan")
        den = float(np.sum(d * d))
        acf = [float(np.sum(d[: n - k] * d[k:])) / den if den > 0 else float("nan") for k in range(1, 6)]
    return m, math.sqrt(m2), sk, ku, acf


def sroot(v, r):
    if v != v:
        return 0.0
    return math.copysign(abs(v) ** (1.0 / r), v) if v != 0 else 0.0


def moments18(x):
    x = np.asarray(x, dtype=float)
    out = []
    for series in (x, np.abs(x[1:] - x[:-1])):
        m, s, sk, ku, acf = raw_moments(series)
        out += [m, s, sroot(sk, 3), sroot(ku, 4)] + [0.0 if a != a else a for a in acf]
    return np.array(out)


def moments_ill_conditioned(x, tol=1e-7, ref_scale=0.0):
    """True when the default 18-moment summary is not determined by its definition to working accuracy.

    `ref_scale`: magnitude of the data the series was computed from (a filtered series that is pure rounding noise of its input -
    the HP cycle of a constant - has a spread that is tiny against THAT, not against its own size)."""
    x = np.asarray(x, dtype=float)
    for series in (x, np.abs(x[1:] - x[:-1])):
        scale = max(float(np.max(np.abs(series))) if len(series) else 0.0, float(ref_scale))
        if len(series) < 7 or np.std(series) <= tol * max(scale, 1e-300):
            return True
        _, _, sk, ku, _ = raw_moments(series)
        if not (abs(sk) > 1e-5 and abs(ku) > 1e-5):  # root has unbounded derivative at 0
            return True
    return False


def msm_1d(calc, cov, standardise):
    """g'Wg; returns None when the value is not determined to working accuracy (guards ii)."""

    def f(sim, real):
        sm = np.array([calc(s) for s in sim], dtype=float)
        rm = np.asarray(calc(real), dtype=float)
        if not (np.all(np.isfinite(sm)) and np.all(np.isfinite(rm))):
            return None
        if standardise:
            if np.any(np.abs(rm) < 1e-9) or (f.data_scale is not None and np.any(np.abs(rm) < 1e-7 * f.data_scale)):
                return None
            sm = sm / np.abs(rm)[None, :]
            rm = rm / np.abs(rm)
        g = rm - sm.mean(axis=0)
        if isinstance(cov, str) and cov == "identity":
            return float(sum(gi * gi for gi in g))
        if isinstance(cov, str) and cov == "inverse_variance":
            var = np.mean((rm[None, :] - sm) ** 2, axis=0)
            if np.any(var <= 1e-12 * (rm * rm + np.mean(sm * sm, axis=0)) + 1e-300):
                return None
            # a variance at the rounding-noise level of the (unfiltered) data, e.g. the std of the HP cycle of a constant series
            if f.data_scale is not None and np.any(var <= (1e-7 * f.data_scale) ** 2):
                return None
            return float(sum(g[i] * g[i] / var[i] for i in range(len(g))))
        W = np.asarray(cov, dtype=float)
        f.abs_scale = float(sum(abs(g[i] * W[i, j] * g[j]) for i in range(len(g)) for j in range(len(g))))
        return float(sum(g[i] * W[i, j] * g[j] for i in range(len(g)) for j in range(len(g))))

    f.abs_scale = 0.0
    f.data_scale = None
    return f


# --------------------------------------------------------------------------- Fourier
def rdft(x):
    n = len(x)
    return np.array([sum(x[t] * cmath.exp(-2j * math.pi * k * t / n) for t in range(n)) for k in range(n // 2 + 1)])


def fourier_mask(kind, f, nfreq):
    q = f * nfreq
    if abs(q - math.floor(q) - 0.5) < 1e-9:
        return None  # rounding convention not documented at exact halves
    r = int(math.floor(q + 0.5))
    if kind == "ideal":
        return np.array([1.0 if k < r else 0.0 for k in range(nfreq)])
    if r == 0:
        return None
    return np.array([math.exp(-(k * k) / (2.0 * r * r)) for k in range(nfreq)])


def fourier_1d(kind, f):
    def fn(sim, real):
        nfreq = len(real) // 2 + 1
        mask = fourier_mask(kind, f, nfreq)
        if mask is None:
            return None
        fr = rdft(real) * mask
        fs = np.zeros(nfreq, dtype=complex)
        for e in range(sim.shape[0]):
            fs = fs + rdft(sim[e]) * mask
        fs = fs / sim.shape[0]
        return float(math.sqrt(sum(abs(a - b) ** 2 for a, b in zip(fs, fr)) / nfreq))

    return fn


# --------------------------------------------------------------------------- GSL-div
def symbolise(x, nb):
    lo, hi = float(np.min(x)) - EPS_GSL, float(np.max(x)) + EPS_GSL
    # the documented bin edges: nb + 1 equally spaced points from min - eps to max + eps; a value exactly ON an edge belongs to the
    # bin below it (the docstring example: 4 -> 1 and 7 -> 2 for edges 1, 4, 7, 10).  The equally spaced points are taken both
    # from numpy.linspace and from the plain formula: where the two agree bit for bit the edge is what the definition says and
    # an exact hit is decided; a value within 1e-12 of an edge that is not such an exact hit stays undecided (near_edge)
    e_np = [float(v_) for v_ in np.linspace(lo, hi, nb + 1)]
    e_pl = [lo + (hi - lo) * i / nb for i in range(nb + 1)]
    e_pl[-1] = hi
    sym, near_edge = [], False
    for v in x:
        s = 0
        for a_, b_ in zip(e_np, e_pl):
            if a_ < v:
                s += 1
            if abs(a_ - v) <= 1e-12 * max(1.0, abs(v)) and not (a_ == b_ == v):
                near_edge = True
        sym.append(s)
    return sym, near_edge


def _entropy(counter, log_base):
    """Shannon entropy in the base whose natural logarithm is `log_base`."""
    tot = sum(counter.values())
    return -sum((c / tot) * (math.log(c / tot) / log_base) for c in counter.values())


def tuple_words(sym, l):  # noqa: E741
    return [tuple(sym[i:i + l]) for i in range(len(sym) + 1 - l)]


def gsl_1_sample(sim_sym, obs_sym, L, nb, T, labeler=tuple_words):
    total = 0.0
    for l in range(1, L + 1):  # noqa: E741
        ws, wo = labeler(sim_sym, l), labeler(obs_sym, l)
        cs, cm = Counter(ws), Counter(ws + wo)
        log_base = l * math.log(nb)          # log(nb**l), which exists for every l (nb**l itself leaves the float range for long words)
        w = 2.0 * l / (L * (L + 1))
        corr = ((len(cm) - 1) - (len(cs) - 1)) / (2.0 * T)
        total += w * (2 * _entropy(cm, log_base) - _entropy(cs, log_base) + corr)
    return total


def gsl_1d(nb_values, nb_word_lengths, labeler=tuple_words, flags=None):
    def fn(sim, real):
        T = len(real)
        nb = int((T - 1) / 2.0) if nb_values is None else nb_values
        L = int((T - 1) / 2.0) if nb_word_lengths is None else nb_word_lengths
        obs, ne = symbolise(real, nb)
        tot = 0.0
        for e in range(sim.shape[0]):
            ss, ne2 = symbolise(sim[e], nb)
            ne = ne or ne2
            tot += gsl_1_sample(ss, obs, L, nb, T, labeler)
            if flags is not None and "conflation" in flags:
                for l in range(1, L + 1):  # noqa: E741
                    labs = labeler(ss, l) + labeler(obs, l)
                    tups = tuple_words(ss, l) + tuple_words(obs, l)
                    if len(set(labs)) < len(set(tups)):
                        flags["conflation"].append((l, max(max(ss), max(obs))))
        if flags is not None and ne:
            flags["near_edge"] = True
        return tot / sim.shape[0]

    return fn


# --------------------------------------------------------------------------- likelihood
def likelihood(sim, real, h, filters):
    E, S, D = sim.shape
    fs = np.empty((E, S, D))
    for e in range(E):
        for i in range(D):
            fs[e, :, i] = apply_filter_ref(None if filters is None else filters[i], sim[e, :, i])
    if h == "silverman":
        hv = ((S * (D + 2)) / 4.0) ** (-1.0 / (D + 4))
    elif h == "scott":
        hv = S ** (-1.0 / (D + 4))
    else:
        hv = float(h)
    norm = hv**D * (2 * math.pi) ** (D / 2.0)
    tot = 0.0
    with np.errstate(all="ignore"):
        for e in range(E):
            for t in range(real.shape[0]):
                q = np.sum((fs[e] - real[t][None, :]) ** 2, axis=1) / D
                lik = float(np.sum(np.exp(-q / (2 * hv * hv)) / norm)) / S
                tot += math.log(lik) if lik > 0 else float("-inf")
    return -tot / E
