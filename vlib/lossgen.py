"""Generators for loss configurations and data (descriptor first), builders for the real loss objects."""
from __future__ import annotations

import numpy as np

from vlib import lossref as R

FILTER_KINDS = [None, None, "affine", "cumsum", "square", "demean", "hp_cycle", "log_hp", "diff_log_demean"]


def calc_mean_std(x):
    x = np.asarray(x, dtype=float)
    return np.array([x.mean(), x.std()])


def calc_quartiles(x):
    return np.quantile(np.asarray(x, dtype=float), [0.25, 0.5, 0.75])


def calc_minmaxmean(x):
    x = np.asarray(x, dtype=float)
    return np.array([x.min(), x.max(), x.mean(), np.abs(x).mean()])


def calc_head_view(x):
    """'Moments' = the first six observations, returned as a VIEW of the argument (a calculator need not allocate)."""
    return np.asarray(x)[:6]


CALCS = {"mean_std": (calc_mean_std, 2), "quartiles": (calc_quartiles, 3), "minmaxmean": (calc_minmaxmean, 4), "head_view": (calc_head_view, 6)}


def gen_filters(rng, D, allow=True):
    if not allow or rng.random() < 0.45:
        return None
    fs = []
    same = FILTER_KINDS[int(rng.integers(2, len(FILTER_KINDS)))] if (D >= 2 and rng.random() < 0.2) else None   # one function for every coordinate
    for _ in range(D):
        k = FILTER_KINDS[int(rng.integers(len(FILTER_KINDS)))] if same is None else same
        if k is None:
            fs.append(None)
        elif k == "affine":
            fs.append(["affine", float(np.round(rng.normal(), 3)), float(np.round(rng.normal(), 3))])
        else:
            fs.append([k])
    return fs


def gen_weights(rng, D):
    u = rng.random()
    if u < 0.4:
        return None
    w = np.round(rng.random(D) * 3, 3)
    if u > 0.8 and D > 1:
        w[int(rng.integers(D))] = 0.0
    if u > 0.92:
        j = int(rng.integers(D))
        w[j] = -float(np.round(rng.random() * 2 + 0.1, 3))   # weights are importances by convention, not by contract
    if 0.5 < u < 0.58:
        return [int(x) for x in rng.integers(0, 4, size=D)]    # whole-number weights written as Python ints (an integer-typed array)
    return w.tolist()


def gen_loss_desc(rng, kind, D, N):
    d = {"kind": kind, "weights": gen_weights(rng, D), "filters": gen_filters(rng, D)}
    if kind == "minkowski":
        d["p"] = float(rng.choice([1, 1.5, 2, 3, np.inf])) if rng.random() < 0.8 else 2   # inf: Chebyshev distance
    elif kind == "msm":
        d["calc"] = str(rng.choice(["default", "default", "mean_std", "quartiles", "minmaxmean", "head_view"]))
        nm = 18 if d["calc"] == "default" else CALCS[d["calc"]][1]
        cov = str(rng.choice(["identity", "inverse_variance", "matrix"]))
        if cov == "matrix":
            A = rng.normal(size=(nm, nm))
            # overall scale: O(1), or that of an inverse covariance of large / tiny moments (every entry far below 1e-8, or huge)
            cov = (np.round((A + A.T) / 2, 3) * float(rng.choice([1.0, 1.0, 1e-10, 1e6]))).tolist()
        d["cov"] = cov
        d["standardise"] = bool(rng.random() < 0.4)
    elif kind == "fourier":
        d["filter"] = str(rng.choice(["ideal", "gaussian"]))
        d["f"] = float(rng.choice([1.0, 0.8, 0.5, float(np.round(rng.uniform(0.05, 1.0), 3))]))
    elif kind == "gsl":
        d["nb_values"] = None if rng.random() < 0.25 else int(rng.integers(2, 16))
        d["nb_word_lengths"] = None if rng.random() < 0.25 else int(rng.integers(1, min(9, N)))
    elif kind == "likelihood":
        d["h"] = rng.choice(["silverman", "scott", "number"]).item()
        if d["h"] == "number":
            d["h"] = float(np.round(10.0 ** rng.uniform(-1, 1), 4))
        d["weights"] = None
    if rng.random() < 0.12:
        # the documented defaults, obtained by NOT passing the options at all
        d["defaults"] = True
        if kind == "minkowski":
            d["p"] = 2
        elif kind == "msm":
            d.update(calc="default", cov="identity", standardise=False)
        elif kind == "fourier":
            d.update(filter="gaussian", f=0.8)
        elif kind == "gsl":
            d.update(nb_values=None, nb_word_lengths=None)
        elif kind == "likelihood":
            d["h"] = "silverman"
    return d


def gen_data(rng, N, D, E, filters, shapes=None, int_data=False):
    """Real (N, D) and simulated (E, N, D) data; coordinates that feed a log filter are positive."""
    shapes = shapes or ["normal", "normal", "heavy", "constant", "twovalued", "tied", "symint", "monotone", "walk"]
    tiny_units = bool(rng.random() < 0.06) and not int_data
    real = np.empty((N, D))
    sim = np.empty((E, N, D))
    kinds = []
    for i in range(D):
        sh = str(rng.choice(shapes))
        kinds.append(sh)
        pos = filters is not None and filters[i] is not None and filters[i][0] in ("log_hp", "diff_log_demean")
        scale = float(10.0 ** rng.integers(-2, 3))
        if tiny_units and not pos:
            # data expressed in small units: every definition here is scale-free or scale-equivariant.  (Not for coordinates that
            # feed a log filter: the logarithm turns the unit into a level of -20..-30, and the HP solve's error - conditioning,
            # about eps * 16 lambda * level - then exceeds the comparison tolerance once inverse-variance weights amplify it.)
            scale = float(10.0 ** rng.integers(-13, -8))

        def one():
            if sh == "normal":
                x = rng.normal(size=N)
            elif sh == "heavy":
                x = rng.standard_t(2.5, size=N)
            elif sh == "constant":
                x = np.full(N, float(np.round(rng.normal(), 2)))
            elif sh == "twovalued":
                x = rng.choice([0.0, 1.0], size=N)
            elif sh == "tied":
                x = np.round(rng.normal(size=N), 1)
            elif sh == "symint":
                kk = int(rng.integers(1, 6))
                x = rng.integers(-kk, kk + 1, size=N).astype(float)
                x[:3] = [-kk, kk, 0]      # extremes and the exact mid-point are present
            elif sh == "monotone":
                x = np.sort(rng.normal(size=N))
            else:
                x = np.cumsum(rng.normal(size=N))
            x = x * scale
            if pos:
                x = np.abs(x) + scale * 0.1
            return x

        real[:, i] = one()
        for e in range(E):
            sim[e, :, i] = one()
    if int_data:
        # count-like data: integer-typed arrays are legitimate inputs (SIR-type models); values stay exactly representable
        sc = 10.0 / max(1e-12, float(np.max(np.abs(sim))))
        sim = np.round(sim * sc * 10).astype(np.int64)
        real = np.round(real * sc * 10).astype(np.int64)
        if filters is not None:
            for i, f in enumerate(filters):
                if f is not None and f[0] in ("log_hp", "diff_log_demean"):
                    sim[:, :, i] = np.abs(sim[:, :, i]) + 1
                    real[:, i] = np.abs(real[:, i]) + 1
    return real, sim, kinds


def build_filter(spec):
    from black_it.utils import time_series as ts

    if spec is None:
        return None
    k = spec[0]
    if k == "affine":
        return R.Affine(spec[1], spec[2])
    if k == "cumsum":
        return R.CUMSUM
    if k == "square":
        return R.SQUARE
    if k == "demean":
        return R.DEMEAN
    return {"hp_cycle": ts.hp_cycle_lamb1600_filter, "log_hp": ts.log_and_hp_filter, "diff_log_demean": ts.diff_log_demean_filter}[k]


def build_loss(d):
    """The real black_it loss object for a descriptor."""
    from black_it.loss_functions.fourier import FourierLoss, gaussian_low_pass_filter, ideal_low_pass_filter
    from black_it.loss_functions.gsl_div import GslDivLoss
    from black_it.loss_functions.likelihood import LikelihoodLoss
    from black_it.loss_functions.minkowski import MinkowskiLoss
    from black_it.loss_functions.msm import MethodOfMomentsLoss

    w = None if d.get("weights") is None else (np.array(d["weights"]) if all(isinstance(x, int) for x in d["weights"]) else np.array(d["weights"], dtype=float))
    fl = None if d.get("filters") is None else [build_filter(s) for s in d["filters"]]
    k = d["kind"]
    if d.get("defaults"):
        cls = {"minkowski": MinkowskiLoss, "msm": MethodOfMomentsLoss, "fourier": FourierLoss, "gsl": GslDivLoss, "likelihood": LikelihoodLoss}[k]
        kw = {}
        if w is not None:
            kw["coordinate_weights"] = w
        if fl is not None:
            kw["coordinate_filters"] = fl
        return cls(**kw)
    if k == "minkowski":
        return MinkowskiLoss(p=d["p"], coordinate_weights=w, coordinate_filters=fl)
    if k == "msm":
        cov = d["cov"] if isinstance(d["cov"], str) else np.array(d["cov"], dtype=float)
        kw = {} if d["calc"] == "default" else {"moment_calculator": CALCS[d["calc"]][0]}
        return MethodOfMomentsLoss(covariance_mat=cov, coordinate_weights=w, coordinate_filters=fl, standardise_moments=d["standardise"], **kw)
    if k == "fourier":
        ff = ideal_low_pass_filter if d["filter"] == "ideal" else gaussian_low_pass_filter
        return FourierLoss(frequency_filter=ff, f=d["f"], coordinate_weights=w, coordinate_filters=fl)
    if k == "gsl":
        return GslDivLoss(nb_values=d["nb_values"], nb_word_lengths=d["nb_word_lengths"], coordinate_weights=w, coordinate_filters=fl)
    if k == "likelihood":
        return LikelihoodLoss(coordinate_weights=w, coordinate_filters=fl, h=d["h"])
    raise ValueError(k)


def reference_value(d, sim, real, flags=None):
    """Reference loss value (float), or None when the definition does not determine it (guards)."""
    k = d["kind"]
    flt = d.get("filters")
    if k == "likelihood":
        return R.likelihood(sim, real, d["h"], flt), None
    if k == "minkowski":
        one = R.minkowski_1d(d["p"])
    elif k == "msm":
        calc = R.moments18 if d["calc"] == "default" else CALCS[d["calc"]][0]
        cov = d["cov"] if isinstance(d["cov"], str) else np.array(d["cov"], dtype=float)
        one = R.msm_1d(calc, cov, d["standardise"])
    elif k == "fourier":
        one = R.fourier_1d(d["filter"], d["f"])
    elif k == "gsl":
        one = R.gsl_1d(d["nb_values"], d["nb_word_lengths"], R.tuple_words, flags)
    else:
        raise ValueError(k)
    # guards evaluated on the filtered coordinates
    E, N, D = sim.shape
    per = []
    total = 0.0
    w = [1.0 / D] * D if d.get("weights") is None else d["weights"]
    for i in range(D):
        col = np.array([R.apply_filter_ref(None if flt is None else flt[i], sim[e, :, i]) for e in range(E)])
        if k == "msm" and d["calc"] == "default":
            if any(R.moments_ill_conditioned(c, ref_scale=float(np.max(np.abs(sim[e, :, i])))) for e, c in enumerate(col)) or R.moments_ill_conditioned(real[:, i]):
                return None, "moments 0/0 or root at 0"
        if k == "msm":
            one.data_scale = float(max(np.max(np.abs(sim[:, :, i])), np.max(np.abs(real[:, i])), 1e-300))
        v = one(col, real[:, i])
        if v is None:
            return None, "value not determined by the definition (rounding convention at an exact half, sigma 0, or 0/0 weighting)"
        per.append(v)
        total += w[i] * v
        if flags is not None:
            flags["abs_scale"] = flags.get("abs_scale", 0.0) + abs(w[i]) * max(abs(v), getattr(one, "abs_scale", 0.0))
    if flags is not None and k == "msm" and not isinstance(d["cov"], str):
        # the value is linear in the weighting matrix: a matrix with entries of order 1e-10 scales value and rounding noise alike,
        # so the absolute floor of the comparison scales with it
        flags["floor"] = float(min(1.0, max(np.max(np.abs(np.array(d["cov"], dtype=float))), 1e-300)))
    return total, per
