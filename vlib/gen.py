"""Seeded, descriptor-first generators: search spaces, sampler line-ups, histories, calibrator configurations."""
from __future__ import annotations

import signal

import numpy as np

SAMPLER_KINDS = ["RandomUniform", "Halton", "RSequence", "BestBatch", "ParticleSwarm", "CORS", "RandomForest", "XGBoost", "GaussianProcess"]
HISTORY_FREE = ["RandomUniform", "Halton", "RSequence", "ParticleSwarm"]
CHEAP = ["RandomUniform", "Halton", "RSequence", "BestBatch", "ParticleSwarm"]


# --------------------------------------------------------------------------- search spaces
def gen_space(rng, dims=None, max_points=400, aligned_only=False, fine=False, giant_ok=False):
    """Return descriptor {"bounds": [[lo...],[up...]], "precision": [...], "styles": [...]}."""
    d = int(rng.integers(1, 7)) if dims is None else dims
    lo, up, pr, styles = [], [], [], []
    # axes that all have the same NUMBER of grid points but different values (a length is not an identity)
    common = int(rng.choice([2, 3, 5, 10, 37])) if (d >= 2 and not fine and rng.random() < 0.15) else None
    # one axis with more than a million grid points ("effectively continuous" - but still a grid)
    giant = int(rng.integers(d)) if (giant_ok and not fine and not aligned_only and rng.random() < 0.04) else None
    for ax in range(d):
        style = "dyadic" if aligned_only else str(rng.choice(["dyadic", "decimal", "nondividing", "offset", "tiny", "huge"]))
        npts = int(rng.choice([1, 2, 3, 5, 10, 37, 100, int(rng.integers(2, max_points))]))
        if common is not None:
            npts = common
        if giant == ax:
            npts = int(rng.integers(1_000_001, 1_300_000))
            style = str(rng.choice(["dyadic", "decimal"]))
        if fine:  # many cells per axis: small changes of a raw proposal survive the snap
            npts = int(rng.integers(500, 4000))
            style = str(rng.choice(["dyadic", "decimal", "nondividing"]))
        if style == "dyadic":
            p = 2.0 ** int(rng.integers(-6, 4))
            l0 = p * int(rng.integers(-50, 50))
            u0 = l0 + p * npts
        elif style == "decimal":
            p = float(rng.choice([0.1, 0.01, 0.001, 0.3, 0.7, 0.05]))
            l0 = float(np.round(rng.normal(), 2))
            u0 = l0 + p * npts
        elif style == "nondividing":
            p = float(np.round(rng.uniform(0.01, 1.0), 4))
            l0 = float(np.round(rng.normal() * 3, 3))
            u0 = l0 + p * (npts + float(rng.uniform(0.1, 0.9)))
        elif style == "offset":
            p = float(rng.choice([0.25, 0.1, 1 / 3]))
            l0 = float(rng.choice([-1, 1])) * float(10.0 ** rng.integers(2, 5)) + float(np.round(rng.normal(), 2))
            u0 = l0 + p * npts
        elif style == "tiny":
            sc = float(10.0 ** rng.integers(-6, -2))
            p = float(rng.choice([0.1, 0.3, 1.0])) * sc
            l0 = float(np.round(rng.normal(), 2)) * sc
            u0 = l0 + p * (npts + float(rng.choice([0.0, 0.5])))
        else:  # huge
            sc = float(10.0 ** rng.integers(3, 7))
            p = float(rng.choice([0.1, 0.3, 1.0])) * sc
            l0 = float(np.round(rng.normal(), 2)) * sc
            u0 = l0 + p * (npts + float(rng.choice([0.0, 0.5])))
        if not (u0 > l0 and p <= u0 - l0):
            u0 = l0 + 2 * p
        lo.append(l0), up.append(u0), pr.append(p), styles.append(style)
    return {"bounds": [lo, up], "precision": pr, "styles": styles}


def build_space(sd):
    from black_it.search_space import SearchSpace

    if sd.get("int_bounds"):
        # the way a user writes whole-number bounds: plain Python ints in nested lists (numpy infers an integer dtype from them)
        return SearchSpace([[int(v) for v in sd["bounds"][0]], [int(v) for v in sd["bounds"][1]]], [float(v) for v in sd["precision"]], False)
    return SearchSpace(np.array(sd["bounds"], dtype=float), np.array(sd["precision"], dtype=float), False)


def gen_int_bounds_space(rng, dims):
    """Whole-number bounds with steps that do not divide 1 (0.3, 0.15, 0.75, 0.4): grid points are not integers."""
    lo = [int(x) for x in rng.integers(-20, 20, size=dims)]
    up = [l + int(x) for l, x in zip(lo, rng.integers(1, 12, size=dims))]
    pr = [float(rng.choice([0.3, 0.15, 0.75, 0.4, 0.07])) for _ in range(dims)]
    return {"bounds": [[float(v) for v in lo], [float(v) for v in up]], "precision": pr, "styles": ["intbounds"] * dims, "int_bounds": True}


def space_is_nonaligned(space):
    """At least one axis whose grid is not exactly lower + k*precision ending on the upper bound."""
    b, p = space.parameters_bounds, space.parameters_precision
    for j, g in enumerate(space.param_grid):
        if g[-1] != b[1][j] or not np.array_equal(g, b[0][j] + np.arange(len(g)) * p[j]):
            return True
    return False


def on_grid(space, pts):
    """Boolean mask (rows, dims): coordinate is an exact element of its axis grid."""
    pts = np.asarray(pts, dtype=float)
    ok = np.zeros(pts.shape, dtype=bool)
    for j, g in enumerate(space.param_grid):
        idx = np.clip(np.searchsorted(g, pts[:, j]), 0, len(g) - 1)
        ok[:, j] = g[idx] == pts[:, j]
    return ok


def gen_history(rng, space, n, loss_kind=None):
    pts = np.column_stack([g[rng.integers(0, len(g), size=n)] for g in space.param_grid]) if n else np.zeros((0, space.dims))
    kind = loss_kind or str(rng.choice(["random", "random", "ties", "equal", "wide"]))
    if kind == "random":
        losses = rng.random(n) + 0.01
    elif kind == "ties":
        losses = rng.integers(1, 4, size=n).astype(float)
    elif kind == "equal":
        losses = np.full(n, float(np.round(rng.random() + 0.1, 3)))
    else:
        losses = 10.0 ** rng.uniform(-8, 8, size=n)
    return pts, losses, kind


# --------------------------------------------------------------------------- samplers
def gen_sampler_desc(rng, kind, batch_size=None, cheap_options=True):
    bs = int(rng.integers(1, 5)) if batch_size is None else batch_size
    d = {"kind": kind, "batch_size": bs, "seed": int(rng.integers(0, 2**31))}
    if kind in ("RandomUniform", "Halton", "RSequence", "BestBatch", "RandomForest", "XGBoost", "GaussianProcess"):
        d["max_dedup"] = int(rng.choice([0, 1, 5, 5]))
    if kind == "BestBatch":
        d.update(a=float(rng.choice([3.0, 1.0, 0.5])), b=float(rng.choice([1.0, 2.0])), perturbation_range=int(rng.choice([2, 3, 6, 6, 10])))
    elif kind == "ParticleSwarm":
        d.update(inertia=float(rng.choice([0.9, 0.5, 0.0])), c1=float(rng.choice([0.1, 1.0])), c2=float(rng.choice([0.1, 2.0])),
                 gmas=bool(rng.random() < 0.5))
    elif kind == "CORS":
        d.update(max_samples=int(rng.choice([20, 50, 200])), rho0=float(rng.choice([0.5, 0.1])), p=float(rng.choice([1.0, 2.0])))
    elif kind == "RandomForest":
        d.update(pool=int(rng.integers(20, 200)), n_estimators=int(rng.integers(3, 11)), n_classes=int(rng.choice([3, 5, 10])),
                 criterion=str(rng.choice(["gini", "entropy"])))
    elif kind == "XGBoost":
        d.update(pool=int(rng.integers(20, 200)), n_estimators=int(rng.integers(3, 11)), max_depth=int(rng.choice([2, 5])),
                 learning_rate=float(rng.choice([0.1, 0.3])), colsample_bytree=float(rng.choice([0.3, 1.0])), alpha=float(rng.choice([1.0, 0.0])))
    elif kind == "GaussianProcess":
        d.update(pool=int(rng.integers(20, 120)), optimize_restarts=int(rng.choice([0, 1])),
                 acquisition=str(rng.choice(["mean", "expected_improvement"])), jitter=float(rng.choice([0.1, 0.01])))
    return d


def build_sampler(d, seed_override="desc"):
    from black_it.samplers.best_batch import BestBatchSampler
    from black_it.samplers.cors import CORSSampler
    from black_it.samplers.gaussian_process import GaussianProcessSampler
    from black_it.samplers.halton import HaltonSampler
    from black_it.samplers.particle_swarm import ParticleSwarmSampler
    from black_it.samplers.r_sequence import RSequenceSampler
    from black_it.samplers.random_forest import RandomForestSampler
    from black_it.samplers.random_uniform import RandomUniformSampler
    from black_it.samplers.xgboost import XGBoostSampler

    k, bs = d["kind"], d["batch_size"]
    seed = d["seed"] if seed_override == "desc" else seed_override
    md = d.get("max_dedup", 5)
    if k == "RandomUniform":
        return RandomUniformSampler(bs, random_state=seed, max_deduplication_passes=md)
    if k == "Halton":
        return HaltonSampler(bs, random_state=seed, max_deduplication_passes=md)
    if k == "RSequence":
        return RSequenceSampler(bs, random_state=seed, max_deduplication_passes=md)
    if k == "BestBatch":
        return BestBatchSampler(bs, random_state=seed, max_deduplication_passes=md, a=d["a"], b=d["b"], perturbation_range=d["perturbation_range"])
    if k == "ParticleSwarm":
        return ParticleSwarmSampler(bs, random_state=seed, inertia=d["inertia"], c1=d["c1"], c2=d["c2"], global_minimum_across_samplers=d["gmas"])
    if k == "CORS":
        return CORSSampler(bs, max_samples=d["max_samples"], rho0=d["rho0"], p=d["p"], random_state=seed)
    if k == "RandomForest":
        return RandomForestSampler(bs, random_state=seed, max_deduplication_passes=md, candidate_pool_size=d["pool"],
                                   n_estimators=d["n_estimators"], criterion=d["criterion"], n_classes=d["n_classes"])
    if k == "XGBoost":
        return XGBoostSampler(bs, random_state=seed, max_deduplication_passes=md, candidate_pool_size=d["pool"], n_estimators=d["n_estimators"],
                              max_depth=d["max_depth"], learning_rate=d["learning_rate"], colsample_bytree=d["colsample_bytree"], alpha=d["alpha"])
    if k == "GaussianProcess":
        return GaussianProcessSampler(bs, random_state=seed, max_deduplication_passes=md, candidate_pool_size=d["pool"],
                                      optimize_restarts=d["optimize_restarts"], acquisition=d["acquisition"], jitter=d["jitter"])
    raise ValueError(k)


def class_name(kind):
    return {"RandomUniform": "RandomUniformSampler", "Halton": "HaltonSampler", "RSequence": "RSequenceSampler", "BestBatch": "BestBatchSampler",
            "ParticleSwarm": "ParticleSwarmSampler", "CORS": "CORSSampler", "RandomForest": "RandomForestSampler", "XGBoost": "XGBoostSampler",
            "GaussianProcess": "GaussianProcessSampler"}[kind]


def gen_lineup(rng, n=None, kinds=None, first_free=True, max_bs=4):
    """1-6 samplers, admissible order: first is history-free; BestBatch only once batch_size points exist."""
    kinds = kinds or SAMPLER_KINDS
    n = int(rng.integers(1, 7)) if n is None else n
    out = []
    have = 0
    for i in range(n):
        for _try in range(50):
            k = str(rng.choice(kinds))
            if i == 0 and first_free and k not in HISTORY_FREE:
                continue
            d = gen_sampler_desc(rng, k, batch_size=int(rng.integers(1, max_bs + 1)))
            if k == "BestBatch" and d["batch_size"] > have:
                continue
            break
        else:
            d = gen_sampler_desc(rng, "RandomUniform", batch_size=int(rng.integers(1, max_bs + 1)))
        out.append(d)
        have += d["batch_size"]
    return out


# --------------------------------------------------------------------------- watchdog for third-party loops
LIMIT = 600  # seconds; only guards against third-party infinite loops - generous on purpose (SIGALRM must not fire in healthy code)


class Timeout(Exception):
    pass


class time_limit:
    """SIGALRM-based limit for a single call (main thread only). Firing is 'no result', never a verdict."""

    def __init__(self, seconds):
        self.seconds = seconds

    def _fire(self, *_a):
        raise Timeout()

    def __enter__(self):
        self.old = signal.signal(signal.SIGALRM, self._fire)
        signal.setitimer(signal.ITIMER_REAL, self.seconds)

    def __exit__(self, *exc):
        signal.setitimer(signal.ITIMER_REAL, 0)
        signal.signal(signal.SIGALRM, self.old)
        return False
