"""Run one calibrator configuration (used in-process and as a fresh-process twin: python -m vlib.runcfg in.json out.npz)."""
from __future__ import annotations

import json
import sys

import numpy as np


def run(cfg, calls, *, n_jobs=1, verbose=False, folder=None, ctor_seed_shift=0, time_limit=600):
    """Return dict(history arrays, 'ret_p', 'ret_l' of the last call, 'error')."""
    from vlib import calgen as CG
    from vlib import gen as G
    from vlib import state as S
    from vlib.core import quiet

    with quiet():
        cal = CG.build_calibrator(cfg, n_jobs=n_jobs, verbose=verbose, folder=folder, ctor_seed_shift=ctor_seed_shift)
    res = {"error": None}
    ret = None
    try:
        with quiet(), G.time_limit(time_limit):
            for n in calls:
                ret = cal.calibrate(n)
    except G.Timeout:
        res["error"] = "timeout"
    except Exception as e:  # noqa: BLE001
        res["error"] = f"{type(e).__name__}: {str(e)[:200]}"
    res.update(S.history_arrays(cal))
    # canonical state of the scheduler, its samplers and (RL) its agent: equal runs must also end in equal internal state
    res["sched_state"] = np.array(repr(S.canon(cal.scheduler)))
    if ret is not None:
        res["ret_p"], res["ret_l"] = np.asarray(ret[0]), np.asarray(ret[1])
    res["cal"] = cal
    return res


if __name__ == "__main__":
    from vlib.core import bind_repo

    bind_repo()
    job = json.loads(open(sys.argv[1]).read())
    if job.get("prelude"):  # something unrelated happens first in this process: the run of interest must not notice
        run(job["prelude"], [2])
    r = run(job["cfg"], job["calls"], n_jobs=job.get("n_jobs", 1), verbose=job.get("verbose", False))
    r.pop("cal")
    err = r.pop("error")
    np.savez(sys.argv[2], error=np.array(err if err else ""), **r)
