"""Run one calibrator configuration (used in-process and as a fresh-process twin: python -m vlib.runcfg in.json out.npz)."""
from __future__ import annotations

import json
import sys

import numpy as np


def run(cfg, calls, *, n_jobs=1, verbose=False, folder=None, ctor_seed_shift=0, time_limit=600):
    """Return dict(history arrays, 'ret_p', 'ret_l' of the last call, 'error')."""
    from vlib import calgen as CG
    from vlib import gen as G
    from vlib import state as S
    from vlib.core import quiet

    with quiet():
        cal = CG.build_calibrator(cfg, n_jobs=n_jobs, verbose=verbose, folder=folder, ctor_seed_shift=ctor_seed_shift)
    res = {"error": None}
    ret = None
    try:
        with quiet(), G.time_limit(time_limit):
            for n in calls:
                if isinstance(n, dict):      # an operation between two calls
                    if "set_samplers" in n:
                        # samplers introduced in mid-run are not re-seeded by the calibrator (it seeds at batch 0 only): their constructor
                        # seeds are part of the script, so they are the same in every variant
                        cal.set_samplers([G.build_sampler(d) for d in n["set_samplers"]])
                    continue
                ret = cal.calibrate(n)
    except G.Timeout:
        res["error"] = "timeout"
    except Exception as e:  # noqa: BLE001
        res["error"] = f"{type(e).__name__}: {str(e)[:200]}"
    res.update(S.history_arrays(cal))
    # canonical state of the scheduler, its samplers and (RL) its agent: equal runs must also end in equal internal state
    res["sched_state"] = np.array(repr(S.canon(cal.scheduler)))
    if ret is not None:
        res["ret_p"], res["ret_l"] = np.asarray(ret[0]), np.asarray(ret[1])
    res["cal"] = cal
    return res


if __name__ == "__main__":
    from vlib.core import bind_repo

    bind_repo()
    job = json.loads(open(sys.argv[1]).read())
    if job.get("prelude"):  # something unrelated happens first in this process: the run of interest must not notice
        run(job["prelude"], [2])
    if job.get("restore_from"):
        # the realistic restart: another interpreter restores the checkpoint and goes on
        from black_it.calibrator import Calibrator

        from vlib import calgen as CG
        from vlib import state as S
        from vlib.core import quiet

        r = {"error": None}
        try:
            with quiet():
                cal = Calibrator.restore_from_checkpoint(job["restore_from"], CG.model_for(job["cfg"]))
                for n in job["calls"]:
                    cal.calibrate(n)
            r.update(S.history_arrays(cal))
        except Exception as e:  # noqa: BLE001
            r["error"] = f"{type(e).__name__}: {str(e)[:200]}"
        err = r.pop("error")
        np.savez(sys.argv[2], error=np.array(err if err else ""), **r)
        sys.exit(0)
    r = run(job["cfg"], job["calls"], n_jobs=job.get("n_jobs", 1), verbose=job.get("verbose", False))
    r.pop("cal")
    err = r.pop("error")
    np.savez(sys.argv[2], error=np.array(err if err else ""), **r)
