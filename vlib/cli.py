"""Command line: ./check <id> <quick|thorough> [--replay path]."""
from __future__ import annotations

import os
import sys

from vlib import core


def main(argv: list[str]) -> int:
    if not argv:
        print(__doc__)
        return 2
    pid = argv[0].upper()
    tier = os.environ.get("VERIF_TIER", "quick")
    replay = None
    rest = argv[1:]
    while rest:
        a = rest.pop(0)
        if a in ("quick", "thorough"):
            tier = a
        elif a == "--replay":
            replay = rest.pop(0)
        else:
            print(f"unknown argument {a}")
            return 2
    seed = int(os.environ.get("VERIF_SEED", "0"))
    return core.run_property(pid, tier, seed, replay)


if __name__ == "__main__":
    sys.exit(main(sys.argv[1:]))
