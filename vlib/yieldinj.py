"""Seeded yield/sleep injection at LINE events of the RL modules (free-running interleaving stress, sys.monitoring)."""
from __future__ import annotations

import sys
import threading
import time

import numpy as np

TOOL = 4


class YieldInjector:
    """with YieldInjector(seed) as inj: ... ; inj.events = number of LINE events seen in the RL modules."""

    def __init__(self, seed, p_yield=0.25, p_sleep=0.04):
        self.plan = np.random.default_rng(seed).random(4096)
        self.p_yield, self.p_sleep = p_yield, p_sleep
        self.events = 0
        self.lock = threading.Lock()
        self.active = False

    def __enter__(self):
        import black_it.schedulers.base as m0
        import black_it.schedulers.rl.agents.epsilon_greedy as m3
        import black_it.schedulers.rl.envs.base as m1
        import black_it.schedulers.rl.envs.mab as m2
        import black_it.schedulers.rl.rl_scheduler as m4

        files = {m.__file__ for m in (m0, m1, m2, m3, m4)}
        mon = sys.monitoring
        me = self

        def on_line(code, line):
            if code.co_filename not in files:
                return mon.DISABLE
            with me.lock:
                k = me.events
                me.events += 1
            u = me.plan[k % 4096]
            if u < me.p_yield:
                time.sleep(0)
            elif u < me.p_yield + me.p_sleep:
                time.sleep(0.0005 + 0.002 * me.plan[(k * 7 + 1) % 4096])
            return None

        try:
            mon.use_tool_id(TOOL, "verif-yield")
        except ValueError:
            return self  # tool id busy (nested use): run without injection
        self.active = True
        mon.register_callback(TOOL, mon.events.LINE, on_line)
        mon.set_events(TOOL, mon.events.LINE)
        mon.restart_events()
        return self

    def __exit__(self, *exc):
        if self.active:
            mon = sys.monitoring
            mon.set_events(TOOL, 0)
            mon.register_callback(TOOL, mon.events.LINE, None)
            mon.free_tool_id(TOOL)
            self.active = False
        return False
