#!/usr/bin/env python3
"""tools/verify_seeded.py <ID> [check ids...]: confirm an independently written breaking change and run our checks on it.

Reads /tmp/seeded_out/<ID>/{patch.diff,demo*.py,meta.json}; uses a fresh scratch worktree of /repo (removed afterwards);
writes /verif/seeded/<ID>/ (patch.diff, demo, meta.json with what was run and what was observed).
"""
import json, os, shutil, subprocess, sys, time
from pathlib import Path

VERIF = Path(__file__).resolve().parent.parent
args = sys.argv[1:]
srcroot, name = Path("/tmp/seeded_out"), None
if "--src" in args:
    i = args.index("--src"); srcroot = Path(args[i + 1]); del args[i:i + 2]
if "--name" in args:
    i = args.index("--name"); name = args[i + 1]; del args[i:i + 2]
pid = args[0].upper()
checks = [a.upper() for a in args[1:]] or [pid]
name = name or pid
src = srcroot / pid
wt = Path(f"/tmp/vs_{name}")
demo = next((p for p in [src / "demo.py", src / "demo_test.py"] if p.exists()), None)
assert demo and (src / "patch.diff").exists(), "deliverables missing"


def sh(cmd, **kw):
    return subprocess.run(cmd, capture_output=True, text=True, **kw)


subprocess.run(["git", "-C", "/repo", "worktree", "remove", "--force", str(wt)], capture_output=True)
r = sh(["git", "-C", "/repo", "worktree", "add", "--detach", str(wt), "HEAD"])
assert r.returncode == 0, r.stderr
res = {"property": pid, "repo_head": sh(["git", "-C", "/repo", "rev-parse", "--short", "HEAD"]).stdout.strip()}
try:
    env = dict(os.environ, PYTHONPATH=str(wt))
    r0 = sh(["/venv/bin/python", str(demo)], env=env, cwd=str(src), timeout=1800)
    res["demo_on_clean_tree"] = {"exit": r0.returncode, "tail": (r0.stdout + r0.stderr)[-300:]}
    ra = sh(["git", "-C", str(wt), "apply", str(src / "patch.diff")])
    res["patch_applies"] = ra.returncode == 0
    assert ra.returncode == 0, ra.stderr
    r1 = sh(["/venv/bin/python", str(demo)], env=env, cwd=str(src), timeout=1800)
    res["demo_on_patched_tree"] = {"exit": r1.returncode, "tail": (r1.stdout + r1.stderr)[-400:]}
    rb = sh([str(VERIF / "tools" / "repo_baseline.sh"), str(wt)], timeout=3600)
    res["existing_suite_on_patched_tree"] = rb.stdout.strip().splitlines()[:6]
    res["checks"] = {}
    for c in checks:
        t0 = time.time()
        rc = sh([str(VERIF / "check"), c, "quick"], env=dict(os.environ, VERIF_REPO=str(wt)), timeout=3600)
        what = [l.strip()[:260] for l in rc.stdout.splitlines() if l.strip().startswith("what:")][:3]
        res["checks"][c] = {"tier": "quick", "exit": rc.returncode, "caught": rc.returncode == 1, "first_reports": what,
                            "summary": rc.stdout.strip().splitlines()[-1][:200] if rc.stdout.strip() else "", "wall_s": round(time.time() - t0)}
finally:
    subprocess.run(["git", "-C", "/repo", "worktree", "remove", "--force", str(wt)], capture_output=True)
    shutil.rmtree(wt, ignore_errors=True)
ok = res["demo_on_clean_tree"]["exit"] == 0 and res["demo_on_patched_tree"]["exit"] != 0 and any("84/84" in l for l in res["existing_suite_on_patched_tree"])
res["confirmed"] = ok
print(json.dumps(res, indent=1))
if ok:
    dst = VERIF / "seeded" / name
    dst.mkdir(parents=True, exist_ok=True)
    shutil.copyfile(src / "patch.diff", dst / "patch.diff")
    shutil.copyfile(demo, dst / demo.name)
    meta = json.loads((src / "meta.json").read_text()) if (src / "meta.json").exists() else {}
    meta["verification_by_verif"] = res
    (dst / "meta.json").write_text(json.dumps(meta, indent=1))
