#!/venv/bin/python
"""tools/sweep.py <tier> <seed...>: run every check for each seed, report verdicts and the minimum of each required counter."""
import json, os, subprocess, sys, importlib
from pathlib import Path
VERIF = Path(__file__).resolve().parent.parent
sys.path.insert(0, str(VERIF))
tier = sys.argv[1]
seeds = [int(x) for x in sys.argv[2:]] or [0, 1, 2, 3, 4]
ids = [c["property_id"] for c in json.load(open(VERIF / "MANIFEST.json"))["checks"]]
only = os.environ.get("ONLY")
if only:
    ids = [i for i in ids if i in only.split(",")]
mins = {}
bad = []
keep = (VERIF / "out" / "sweep_evidence")
keep.mkdir(parents=True, exist_ok=True)
for pid in ids:
    for s in seeds:
        r = subprocess.run([str(VERIF / "check"), pid, tier], env=dict(os.environ, VERIF_SEED=str(s)), capture_output=True, text=True)
        ev = json.load(open(VERIF / "evidence" / f"{pid}.json"))
        line = r.stdout.strip().splitlines()[-1] if r.stdout.strip() else ""
        print(pid, "seed", s, "rc", r.returncode, f"{ev['wall_s']}s", line[-90:], flush=True)
        if r.returncode != 0:
            bad.append((pid, s, r.stdout[-1500:]))
        for k, v in ev["coverage"]["monitor_counters"].items():
            mins.setdefault(pid, {})
            mins[pid][k] = min(mins[pid].get(k, 10**12), v)
        mins[pid]["distinct_nontrivial"] = min(mins[pid].get("distinct_nontrivial", 10**12), ev["coverage"]["distinct_nontrivial"])
print("\n== required counters vs minimum observed")
for pid in ids:
    mod = importlib.import_module(f"vlib.props.{pid.lower()}")
    for k, need in getattr(mod, "REQUIRED_COUNTERS", {}).items():
        need = need[tier] if isinstance(need, dict) else need
        got = mins.get(pid, {}).get(k, 0)
        flag = "  <-- TOO TIGHT" if got < 2 * need else ""
        print(f"{pid} {k}: required {need}, min observed {got}{flag}")
print("\nnon-zero exits:", [(p, s) for p, s, _ in bad])
for p, s, out in bad:
    print("-----", p, s)
    print(out)
