#!/bin/bash
# tools/try_patches.sh <dir-with-CXX/patch.diff> [extra check ids per property, e.g. "C09:C11"]
# Quick triage: apply each patch to a scratch copy of /repo (outside /repo and /verif), run the quick check of its property
# against the copy and print caught / MISSED. Does not confirm the patch itself (tools/verify_seeded.py does).
root="$1"; shift
cd "$(dirname "$0")/.." || exit 2
for p in "$root"/C*/patch.diff; do
  id=$(basename "$(dirname "$p")"); prop=${id%%_*}
  d=$(mktemp -d /tmp/trytree.XXXX); cp -r /repo/black_it "$d"/; mkdir -p "$d"/examples; cp -r /repo/examples/saving_folder "$d"/examples/
  if ! patch -p1 -s -d "$d" -i "$p" >/dev/null 2>&1; then echo "$id STALE (patch does not apply)"; rm -rf "$d"; continue; fi
  checks="$prop"; for e in "$@"; do [ "${e%%:*}" = "$prop" ] && checks="$checks ${e#*:}"; done
  res=""
  for c in $checks; do
    out=$(VERIF_REPO="$d" VERIF_JOBS=8 ./check "$c" quick 2>&1); rc=$?
    first=$(echo "$out" | grep -m1 "what:" | cut -c1-150)
    if [ $rc -eq 1 ]; then res="$res $c=caught"; else res="$res $c=MISSED(rc=$rc)"; fi
  done
  echo "$id:$res |$first"
  rm -rf "$d"
done
