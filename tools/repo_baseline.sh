#!/bin/bash
# Run the repository's pinned suite (guard off; there is no guard in use) and compare with BASELINE.json stable_pass.
REPO="${1:-/repo}"
OUT=$(mktemp /tmp/junit.XXXX.xml)
cd "$REPO" && PYTHONPATH="$REPO" /venv/bin/python -m pytest -ra -q -p no:cacheprovider --timeout=900 --continue-on-collection-errors -o log_cli=false --junitxml="$OUT" >/tmp/baseline_run.log 2>&1
/venv/bin/python - "$OUT" <<'PY'
import json, sys, xml.etree.ElementTree as ET
b = json.load(open('/root/.vp/BASELINE.json'))
stable = set(b['stable_pass'])
passed = set()
for tc in ET.parse(sys.argv[1]).getroot().iter('testcase'):
    name = f"{tc.get('classname')}::{tc.get('name')}"
    if not any(ch.tag in ('failure', 'error', 'skipped') for ch in tc):
        passed.add(name)
missing = sorted(stable - passed)
print(f"stable baseline tests passing: {len(stable & passed)}/{len(stable)}")
for m in missing:
    print("  NOT PASSING:", m)
sys.exit(1 if missing else 0)
PY
rc=$?; rm -f "$OUT"; exit $rc
