#!/bin/bash
# tools/runall.sh <quick|thorough> [seed]: run every registered check in sequence, print one line each.
cd "$(dirname "$0")/.." || exit 2
tier="${1:-quick}"; export VERIF_SEED="${2:-0}"
fail=0; mkdir -p out
for id in $(python3 -c "import json;print(' '.join(c['property_id'] for c in json.load(open('MANIFEST.json'))['checks']))"); do
  t0=$(date +%s)
  ./check "$id" "$tier" > "out/last_$id.log" 2>&1; rc=$?
  t1=$(date +%s)
  echo "$id rc=$rc $((t1-t0))s $(tail -1 out/last_$id.log | cut -c1-160)"
  [ $rc -ne 0 ] && fail=1
done
exit $fail
