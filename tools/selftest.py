import json, os, shutil, subprocess, sys, tempfile, time
from concurrent.futures import ThreadPoolExecutor
from pathlib import Path

VERIF = Path(__file__).resolve().parent.parent
sys.path.insert(0, str(VERIF))
from mutants.mutants import M  # noqa: E402

want = {a.upper() for a in sys.argv[1:] if not a.startswith("-")}
names = {a[2:] for a in sys.argv[1:] if a.startswith("--")}
todo = [m for m in M if (not want or m["property"] in want) and (not names or m["name"] in names)]
# independently written changes (seeded/<id>/patch.diff) are replayed the same way
for d in sorted((VERIF / "seeded").glob("C*")):
    prop = d.name.split("_")[0]
    meta = json.loads((d / "meta.json").read_text()) if (d / "meta.json").exists() else {}
    if meta.get("superseded_by_fix"):
        # written against a tree that has since been repaired in a way that makes the change harmless or inapplicable
        print(f"{prop} seeded/{d.name:38s} SUPERSEDED     by fix {meta['superseded_by_fix']}: not replayed")
        continue
    if meta.get("outside_quantifiers"):
        # confirmed as a real change, but what it needs lies outside every property's quantifier: kept for the record, not replayed
        print(f"{prop} seeded/{d.name:38s} OUT-OF-SCOPE   {meta['outside_quantifiers'][:100]}")
        continue
    if (not want or prop in want) and (not names or d.name in names or "seeded/" + d.name in names):
        todo.append({"name": "seeded/" + d.name, "property": prop, "patch": str(d / "patch.diff")})


def one(m):
    d = Path(tempfile.mkdtemp(prefix="verif_mut_"))
    try:
        for sub in ("black_it", "examples/saving_folder"):
            shutil.copytree(Path("/repo") / sub, d / sub)
        if "patch" in m:
            r = subprocess.run(["patch", "-p1", "-s", "-d", str(d), "-i", m["patch"]], capture_output=True, text=True)
            if r.returncode != 0:
                return m, "STALE", (r.stdout + r.stderr)[-200:]
        for (f, old, new) in ([] if "patch" in m else [(m["file"], m["old"], m["new"])] + list(m.get("extra", []))):
            p = d / f
            s = p.read_text()
            if old not in s:
                return m, "STALE", f"pattern not found in {f}"
            p.write_text(s.replace(old, new, 1))
        r = subprocess.run([sys.executable, "-c", "import black_it.calibrator, black_it.plot.plot_results"], env=dict(os.environ, PYTHONPATH=str(d)), capture_output=True, text=True)
        if r.returncode != 0:
            return m, "BROKEN", r.stderr[-300:]
        t0 = time.time()
        env = dict(os.environ, VERIF_REPO=str(d), VERIF_JOBS="8")
        r = subprocess.run([str(VERIF / "check"), m["property"], "quick"], env=env, capture_output=True, text=True, timeout=1800)
        caught = r.returncode == 1 and "VIOLATION property=" + m["property"] in r.stdout
        what = [l for l in r.stdout.splitlines() if l.strip().startswith("what:")]
        return m, ("CAUGHT" if caught else f"MISSED(rc={r.returncode})"), (what[0][:150] if what else r.stdout[-200:]) + f" [{time.time()-t0:.0f}s]"
    finally:
        shutil.rmtree(d, ignore_errors=True)


bad = 0
with ThreadPoolExecutor(max_workers=2) as ex:
    for m, status, info in ex.map(one, todo):
        print(f"{m['property']} {m['name']:45s} {status:14s} {info}")
        sys.stdout.flush()
        if status != "CAUGHT":
            bad += 1
print(f"{len(todo) - bad}/{len(todo)} regressions caught")
sys.exit(1 if bad else 0)
