#!/usr/bin/env python3
"""tools/add_fixed.py <property> <commit> <what failed> - append a 'fixed' record to known_findings.json."""
import json, sys
from pathlib import Path
p = Path(__file__).resolve().parent.parent / "known_findings.json"
k = json.loads(p.read_text())
pid, commit, what = sys.argv[1], sys.argv[2], " ".join(sys.argv[3:])
k["findings"].append({"property": pid, "status": "fixed", "commit": commit, "what": what, "line": f"fixed: property={pid} {commit} {what}"})
p.write_text(json.dumps(k, indent=1) + "\n")
print("recorded", pid, commit)
