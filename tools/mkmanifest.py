#!/usr/bin/env python3
"""Regenerate /verif/MANIFEST.json from the table below (keeps the manifest valid while checks are added)."""
import json
import sys
from pathlib import Path

VERIF = Path(__file__).resolve().parent.parent
ALL = [f"C{i:02d}" for i in range(1, 21)]

# id -> (level category, technique, level text, level note, design ref)
CHECKS = {
    "C01": ("exploration", "differential runs of the real calibrator (twin runs varying n_jobs/verbosity/folder/constructor seeds/fresh process), byte-equality oracle on recorded histories",
            "Byte-equality of the five history arrays and of the return value between a base run and its variants, on generated configurations; held = on the configurations listed in the evidence.",
            "third-party determinism (sklearn/xgboost/BLAS) trusted; RL limited to one session as the quantifier says", "DESIGN 4/C01"),
    "C02": ("exploration", "runtime monitor on the real calibrate() loop: witness model + invocation log + snapshots at every batch boundary, offline alignment/append-only oracle",
            "Every recorded row is re-derived (sampler output, model re-run on decoded vector/seed/length, loss recomputed on a pristine copy) and every snapshot must be a prefix of the next.",
            "witness model encodes (theta, seed, N) in its output; loss copy taken before the run", "DESIGN 4/C02"),
    "C03": ("exploration", "always-on contract on BaseSampler.sample/sample_batch of all nine samplers driven directly over generated spaces and histories",
            "Exact grid membership and shape of every batch over generated search spaces, histories and option sets.",
            "exceptions from third-party estimators on extreme histories count as 'no batch'", "DESIGN 4/C03"),
    "C04": ("exploration", "canonical-state snapshot of the live calibrator vs the restored one over generated operation histories, both back-ends",
            "Canonical state equality (dtype/shape/bytes, generator states, sampler internals) after save/restore on generated operation histories.",
            "fitted third-party estimator objects are excluded from the canonical state (re-fitted before every use)", "DESIGN 4/C04"),
    "C05": ("exploration", "differential runs: segmented/restored run vs uninterrupted twin, byte-equality at every batch boundary",
            "All labelled cuts of n<=4 batches, sampled cuts beyond, for line-ups covering every stateful sampler.",
            "as C01", "DESIGN 4/C05"),
    "C06": ("fault_enumeration", "crash-point enumeration of a real save: strace SIGKILL/ENOSPC injection per file-system syscall, sys.monitoring LINE failpoints, byte-prefix truncation along the observed sequence of on-disk folder states (write order, temporary files and renames are recorded, not assumed); restore classified as error / previous / new / hybrid",
            "Every enumerated crash point of the saves performed is restored and classified; every hybrid is a violation (no crash window is listed as a known finding any more).",
            "byte-prefix model of partial writes; ptrace available", "DESIGN 4/C06"),
    "C07": ("exploration", "reference-model monitor: independent implementations of the five published loss definitions evaluated next to compute_loss",
            "Agreement to 1e-9 relative (GSL 1e-12) with independent references over generated data and every option.",
            "ill-conditioned inputs (0/0 moments, bin-edge ties) are skipped and counted", "DESIGN 4/C07"),
    "C08": ("exploration", "metamorphic relations on compute_loss observed at the API boundary (purity digests, weight linearity, permutations, sign, zero, ValueError)",
            "Relational oracle over generated data for all built-in losses plus generated user losses.",
            "LikelihoodLoss is exempt from weight clauses (documents that it ignores weights)", "DESIGN 4/C08"),
    "C09": ("exploration", "class-level wrapper on BaseSampler.sample recording which sampler object ran each batch; offline ordering oracle (i mod n / agent action)",
            "Every batch over the calibrator's life is attributed to the sampler the scheduler prescribes, across splits and restores.",
            "cheap sampler classes (order, not numerics, is at stake)", "DESIGN 4/C09"),
    "C10": ("exploration", "controlled token-passing scheduler over the real RLScheduler/env/agent code (systematic interleavings with a preemption bound + random schedules) and free-running stress with sys.monitoring yield injection; sequential specification checked on the event log",
            "All schedules within the preemption bound for 1-3 sessions x 0-3 batches (scheduling points before and after every queue put, at get/empty/flag/start/join), incl. sessions torn down by a failing batch, plus random schedules; deadlock = no enabled thread.",
            "the shim owns queue put/get, flag reads/writes, thread start/join; other primitives make the run inconclusive", "DESIGN 4/C10"),
    "C11": ("fault_enumeration", "exception injection (rotating exception classes, identity checked) at every invocation index of model / loss / sampler in runs of <= 6 batches; history, on-disk checkpoint, thread set and reusability judged after the failure; a hang is judged by which thread can still make progress",
            "Every invocation index of the runs performed is injected once; exhaustive for that finite space.",
            "with n_jobs>1 the fault is keyed on the seed value", "DESIGN 4/C11"),
    "C12": ("exploration", "scripted sampler subclass + executable model of the deduplication statement compared with the real BaseSampler.sample",
            "Request sizes, returned multiset and untouched rows equal the model's on generated scripts.",
            "which redraw lands on which repeat is latitude", "DESIGN 4/C12"),
    "C13": ("exploration", "exact-arithmetic reference (Fraction radical inverse, 60-digit phi_d, independent sieve) beside the real halton()/samplers, draw log on the real generators, and a life-cycle monitor (own cursor) over draws, pickling, re-seeding and space changes on one sampler object",
            "Point-wise equality with the exact sequences for d 1-40 and start indices across [0, 2^16+2^12), continuity across batch splits.",
            "first emitted index accepted in [20, 2^16]", "DESIGN 4/C13"),
    "C14": ("exploration", "scripted-loss model driving the real calibrate(); batch-count oracle from the rounding rule; restore of the saving folder",
            "Stopping batch equals the first batch whose running minimum rounds to zero, for generated sequences, precisions, verbosity and folders.",
            "scripted values kept away from the exact rounding boundary", "DESIGN 4/C14"),
    "C15": ("exploration", "reference validator + exact-rational reference grid beside SearchSpace over an exhaustive value lattice and random well-formed spaces",
            "Exception class/payload/order and grid/size agree with the reference on every lattice point (<=2 params quick, <=3 thorough) and random spaces.",
            "negative precisions not judged; ulp budget 4(i+1)", "DESIGN 4/C15"),
    "C16": ("exploration", "digest contracts on the history arguments of every sampler + stub/wrapped surrogates recording fit/predict arguments + best-batch explanation oracle",
            "History digests unchanged; surrogate trained on the given history and returns the lowest predictions; every best-batch proposal explained by a best point and a step vector.",
            "fitted estimators are third-party", "DESIGN 4/C16"),
    "C17": ("exploration", "brute-force nearest-element oracle beside get_closest/digitize_data",
            "Every probed value maps to a float-nearest grid element; idempotence; column-wise grids.",
            "distance judged as computed in float64", "DESIGN 4/C17"),
    "C18": ("exploration", "monitor on samplers_id_table after every operation + plotting helper and restore on every checkpoint the calibrator writes + read-back of the legends drawn by the real plotting functions (Agg)",
            "Table only grows; every row's id maps to the class that produced it; helper and restore return the same names; every legend entry of plot_sampling / plot_convergence / plot_sampling_batch_nums names the class its handle stands for.",
            "sampler classes identified by class name", "DESIGN 4/C18"),
    "C19": ("exploration", "step-by-step reference of the bandit update and reward rules beside the real agent/environment",
            "Q, counts, rewards, reference best and policy validity on generated sequences; twin agents make equal choices.",
            "positive reference losses", "DESIGN 4/C19"),
    "C20": ("exploration", "residual oracle of the HP optimality condition with the monitor's own operator + independent banded solve for the wrappers; finiteness monitor on the moment summary",
            "Backward-error bound, decomposition identity and wrapper definitions on generated series.",
            "forward error at large lambda is conditioning", "DESIGN 4/C20"),
}


def main():
    built = sorted(p.stem.upper() for p in (VERIF / "vlib" / "props").glob("c[0-9][0-9].py"))
    dropped = json.loads((VERIF / "tools" / "unclaimed.json").read_text()) if (VERIF / "tools" / "unclaimed.json").exists() else {}
    checks = []
    for pid in built:
        if pid in dropped:
            continue
        cat, tech, text, note, ref = CHECKS[pid]
        checks.append({
            "property_id": pid,
            "quick_cmd": f"./check {pid} quick",
            "thorough_cmd": f"./check {pid} thorough",
            "evidence_file": f"evidence/{pid}.json",
            "replay_cmd_template": f"./check {pid} --replay {{path}}",
            "engine": "vlib",
            "level_claimed": {"category": cat, "text": text, "design_ref": ref},
            "level_note": note,
            "technique": tech,
        })
    na = []
    for pid in ALL:
        if pid in dropped:
            na.append({"property_id": pid, "reason": dropped[pid]})
        elif pid not in built:
            na.append({"property_id": pid, "reason": "check not built yet in this round (planned, see DESIGN.md section 4); not claimed until it runs"})
    m = {
        "version": 1,
        "setup_cmd": "./setup.sh",
        "hooks": {
            "guard": "BLACK_IT_VERIF",
            "enable": "none needed: all instrumentation is applied from /verif at import time (class-level wrappers, subclassing, sys.monitoring, strace); checks import black_it from /repo's working tree (VERIF_REPO overrides)",
            "baseline_off_cmd": "cd /repo && /venv/bin/python -m pytest -ra -q -p no:cacheprovider --timeout=900 --continue-on-collection-errors -o log_cli=false",
            "source_commits": [],
            "add_only": True,
        },
        "engines": [{"name": "vlib", "path": "vlib/", "serves_properties": [c["property_id"] for c in checks],
                     "kind_free_text": "runtime monitors, reference models, controlled thread scheduler and fault injectors around the real black_it code"}],
        "checks": checks,
        "not_applicable": na,
        "notes": "Verdicts: exit 0 held on what was observed; exit 1 + VIOLATION line; exit 2 + INCONCLUSIVE line (a deciding monitor was not reached; never folded into held). Known findings: known_findings.json.",
    }
    (VERIF / "MANIFEST.json").write_text(json.dumps(m, indent=1) + "\n")
    print(f"MANIFEST.json: {len(checks)} checks, {len(na)} not claimed")


if __name__ == "__main__":
    sys.exit(main())
